package checks

import (
	"fmt"
	"sort"
	"strings"

	"github.com/vektah/gqlparser/v2"
	"github.com/vektah/gqlparser/v2/ast"
	"github.com/vektah/gqlparser/v2/gqlerror"
	"github.com/vektah/gqlparser/v2/parser"
	"github.com/vektah/gqlparser/v2/validator"
	"pgregory.net/rapid"

	"verif/harness/gen"
	"verif/harness/kit"
	"verif/harness/ref"
)

// valCase: one (schema text, document text) pair.
type valCase struct {
	Schema string `json:"schema"`
	Query  string `json:"query"`
	Fault  string `json:"fault,omitempty"`
	Rule   string `json:"rule,omitempty"`
	Class  string `json:"class,omitempty"`
}

var docKF = []struct {
	id  string
	set func(o *ref.DocOpts)
}{
	{"int32-range", func(o *ref.DocOpts) { o.NoInt32Range = true }},
	{"empty-object-for-leaf", func(o *ref.DocOpts) { o.EmptyObjectForLeaf = true }},
	{"same-value-shallow", func(o *ref.DocOpts) { o.SameValueShallow = true }},
	{"leaf-vs-composite-conflict", func(o *ref.DocOpts) { o.LeafVsCompositeNoConflict = true }},
	{"subscription-dedup-by-name", func(o *ref.DocOpts) { o.SubscriptionDedupByName = true }},
	{"repeatable-by-name", func(o *ref.DocOpts) { o.RepeatableByName = true }},
	{"location-default-relaxation", func(o *ref.DocOpts) { o.NoLocationDefaultRelaxation = true }},
	{"bigint-for-float-id", func(o *ref.DocOpts) { o.BigIntRejected = true }},
}

func docOptsOpen(prop string) ref.DocOpts {
	var o ref.DocOpts
	for _, k := range docKF {
		if kit.KFOpen(prop, k.id) {
			k.set(&o)
		}
	}
	return o
}

// refSide: reference schema and document for a case; ok=false if the reference cannot
// parse/load them (then the case is outside the domain).
type refSide struct {
	ok     bool
	schema *ref.Schema
	doc    *ref.Doc
}

var refSchemaCache = struct {
	text string
	s    *ref.Schema
}{}

func refParseCase(c valCase) (r refSide) {
	if refSchemaCache.text == c.Schema && refSchemaCache.s != nil {
		r.schema = refSchemaCache.s
	} else {
		rl := loadRef(schemaCase{Sources: []srcText{{"schema.graphql", c.Schema}}}, ref.ValidateOpts{})
		if !rl.parsed || rl.unsupported != "" || len(rl.viol) > 0 {
			return
		}
		r.schema = rl.schema
		refSchemaCache.text, refSchemaCache.s = c.Schema, rl.schema
	}
	lr := ref.Lex([]rune(c.Query), ref.LexOpts{})
	if !lr.OK {
		return
	}
	d, fail := ref.ParseQuery(ref.StripComments(lr.Toks), ref.ParseOpts{})
	if fail >= 0 {
		return
	}
	r.doc = d
	r.ok = true
	return
}

type libSide struct {
	loadErr  error
	parseErr error
	errs     gqlerror.List
	doc      *ast.QueryDocument
	schema   *ast.Schema
	panic    *kit.Panic
}

var libSchemaCache = struct {
	text string
	s    *ast.Schema
	// every type reference of the schema's definitions as written, taken right after loading:
	// what a position declares must be read from here, not from an object validation has touched
	declared map[*ast.Type]string
}{}

// declaredType: the type reference t of the cached schema as it was written in the schema text.
func declaredType(t *ast.Type) string {
	if t == nil {
		return "<nil>"
	}
	if s, ok := libSchemaCache.declared[t]; ok {
		return s
	}
	return t.String()
}

func snapshotDeclaredTypes(s *ast.Schema) map[*ast.Type]string {
	out := map[*ast.Type]string{}
	var add func(t *ast.Type)
	add = func(t *ast.Type) {
		for ; t != nil; t = t.Elem {
			out[t] = t.String()
		}
	}
	args := func(l ast.ArgumentDefinitionList) {
		for _, a := range l {
			add(a.Type)
		}
	}
	for _, d := range s.Types {
		for _, f := range d.Fields {
			add(f.Type)
			args(f.Arguments)
		}
	}
	for _, d := range s.Directives {
		args(d.Arguments)
	}
	return out
}

func libLoadSchema(text string) (*ast.Schema, error) {
	if libSchemaCache.text == text && libSchemaCache.s != nil {
		return libSchemaCache.s, nil
	}
	s, err := gqlparser.LoadSchema(&ast.Source{Name: "schema.graphql", Input: text})
	if err != nil {
		return nil, err
	}
	libSchemaCache.text, libSchemaCache.s = text, s
	libSchemaCache.declared = snapshotDeclaredTypes(s)
	return s, nil
}

func libValidate(c valCase, rules ...validator.Rule) (l libSide) {
	l.panic = kit.Safely(func() {
		s, err := libLoadSchema(c.Schema)
		if err != nil {
			l.loadErr = err
			return
		}
		l.schema = s
		d, err := parser.ParseQuery(&ast.Source{Input: c.Query})
		if err != nil {
			l.parseErr = err
			return
		}
		l.doc = d
		l.errs = validator.Validate(s, d, rules...)
	})
	return
}

func rulesOf(vs []ref.DocViolation) string {
	seen := map[string]bool{}
	var out []string
	for _, v := range vs {
		if !seen[v.Rule] {
			seen[v.Rule] = true
			out = append(out, v.Rule)
		}
	}
	sort.Strings(out)
	return strings.Join(out, ",")
}

func libRules(errs gqlerror.List) string {
	seen := map[string]bool{}
	var out []string
	for _, e := range errs {
		if !seen[e.Rule] {
			seen[e.Rule] = true
			out = append(out, e.Rule)
		}
	}
	sort.Strings(out)
	return strings.Join(out, ",")
}

// checkVerdict: C08 oracle on one case. skip=true when outside the domain.
func checkVerdict(prop string, c valCase) (viol string, known []string, skip bool, want []ref.DocViolation, lib libSide) {
	r := refParseCase(c)
	lib = libValidate(c)
	if !r.ok || lib.loadErr != nil || lib.parseErr != nil {
		if lib.panic != nil {
			return "validation panicked: " + lib.panic.Value + " at " + lib.panic.Site, nil, false, nil, lib
		}
		return "", nil, true, nil, lib
	}
	if lib.panic != nil {
		return "validation panicked: " + lib.panic.Value + " at " + lib.panic.Site, nil, false, nil, lib
	}
	want = ref.ValidateDoc(r.schema, r.doc, ref.DocOpts{})
	wantValid, gotValid := len(want) == 0, len(lib.errs) == 0
	if wantValid == gotValid {
		return "", nil, false, want, lib
	}
	msg := ""
	if wantValid {
		msg = fmt.Sprintf("document satisfies every validation rule but is rejected: [%s] %s", lib.errs[0].Rule, lib.errs[0].Message)
	} else {
		msg = fmt.Sprintf("document violates %s (%s) but validation returns no error", rulesOf(want), want[0].Msg)
	}
	open := docOptsOpen(prop)
	if open == (ref.DocOpts{}) {
		return msg, nil, false, want, lib
	}
	if relaxed := ref.ValidateDoc(r.schema, r.doc, open); (len(relaxed) == 0) != gotValid {
		return msg + " || not explained by the open known findings either", nil, false, want, lib
	}
	for _, k := range docKF {
		if kit.KFOpen(prop, k.id) {
			var o ref.DocOpts
			k.set(&o)
			if (len(ref.ValidateDoc(r.schema, r.doc, o)) == 0) == gotValid {
				known = append(known, k.id)
			}
		}
	}
	if len(known) == 0 {
		known = []string{"combination-of-validation-findings"}
	}
	return "", known, false, want, lib
}

// genValCase draws a schema and a document of the requested class: 0 valid, 1 faulty (1-3
// faults), 2 type-blind. It returns the case, and for class 0/1 what the construction
// expects.
type genVal struct {
	Before string // the document before faults were injected
	Case   valCase
	Schema *ref.Schema
	Typed  *gen.TypedDoc
	Faults []gen.DocFault
}

func genValidationCase(rt *rapid.T, class int) (g genVal, ok bool) {
	st := gen.TypedSchema().Draw(rt, "schema")
	g.Case.Schema = renderSchemaTree(st, gen.Canon)
	rl := loadRef(schemaCase{Sources: []srcText{{"schema.graphql", g.Case.Schema}}}, ref.ValidateOpts{})
	if !rl.parsed || rl.unsupported != "" || len(rl.viol) > 0 {
		return g, false
	}
	g.Schema = rl.schema
	refSchemaCache.text, refSchemaCache.s = g.Case.Schema, rl.schema
	switch class {
	case 2:
		d := gen.BlindDocument(rt, g.Schema)
		g.Case.Query = gen.JoinPlain(gen.QueryLexemes(d, gen.Canon))
		g.Case.Class = "type-blind"
	default:
		g.Typed = gen.TypedDocument(rt, g.Schema)
		g.Case.Class = "valid"
		g.Before = gen.JoinPlain(gen.QueryLexemes(g.Typed.Doc, gen.Canon))
		if class == 1 {
			n := rapid.IntRange(1, 3).Draw(rt, "nfaults")
			if rapid.IntRange(0, 2).Draw(rt, "rarefault") == 0 {
				// one fault from the rarely applicable ones, alone, so that nothing masks it
				if f, ok := gen.ApplyRareDocFault(rt, g.Typed, g.Schema); ok {
					g.Faults = append(g.Faults, f)
					n = 0
				}
			}
			for i := 0; i < n; i++ {
				f, ok := gen.ApplyDocFault(rt, g.Typed, g.Schema, rapid.IntRange(0, gen.NumDocFaults()-1).Draw(rt, "fault"))
				if ok {
					g.Faults = append(g.Faults, f)
				}
			}
			if len(g.Faults) == 0 {
				return g, false
			}
			g.Case.Class = "faulty"
			g.Case.Fault = g.Faults[0].Name
			g.Case.Rule = g.Faults[0].Rule
		}
		g.Case.Query = gen.JoinPlain(gen.QueryLexemes(g.Typed.Doc, gen.Canon))
		if class == 1 && g.Case.Query == g.Before {
			return g, false // the faults cancelled each other
		}
	}
	return g, true
}
