package checks

// Self-tests of the reference models (DESIGN.md section 5/7): they compare the oracles with
// the repository's own example files, never the library with anything. A failure here is a
// defect of the harness (exit 2), not a violation.

import (
	"fmt"
	"os"
	"path/filepath"
	"regexp"
	"strconv"
	"strings"
	"testing"

	"gopkg.in/yaml.v3"

	"verif/harness/kit"
	"verif/harness/ref"
)

type selfSpec struct {
	Name  string
	Input string
	Error *struct {
		Message string
	}
	Tokens []struct {
		Kind  string
		Value string
		Start int
		End   int
	}
}

func readFeatures(t *testing.T, rel string) map[string][]selfSpec {
	b, err := os.ReadFile(filepath.Join(kit.RepoDir(), rel))
	if err != nil {
		t.Fatalf("cannot read %s: %v", rel, err)
	}
	var f map[string][]selfSpec
	if err := yaml.Unmarshal(b, &f); err != nil {
		t.Fatalf("cannot parse %s: %v", rel, err)
	}
	return f
}

var ymlKind = map[string]string{"NAME": "Name", "INT": "Int", "FLOAT": "Float", "STRING": "String", "BLOCK_STRING": "BlockString", "COMMENT": "Comment",
	"BANG": "Bang", "DOLLAR": "Dollar", "AMP": "Amp", "PAREN_L": "ParenL", "PAREN_R": "ParenR", "SPREAD": "Spread", "COLON": "Colon", "EQUALS": "Equals",
	"AT": "At", "BRACKET_L": "BracketL", "BRACKET_R": "BracketR", "BRACE_L": "BraceL", "BRACE_R": "BraceR", "PIPE": "Pipe"}

// known disagreements between the repository's lexer examples and the specification
// (the example pins the implementation's deviation; see known-findings.txt)
var selfLexerSkip = map[string]bool{}

func TestSelfLexer(t *testing.T) {
	n := 0
	for feature, specs := range readFeatures(t, "lexer/lexer_test.yml") {
		for _, sp := range specs {
			res := ref.Lex([]rune(sp.Input), ref.LexOpts{})
			n++
			if sp.Error != nil {
				if res.OK {
					t.Errorf("%s/%s: example expects error %q, reference lexes %d tokens", feature, sp.Name, sp.Error.Message, len(res.Toks))
				}
				continue
			}
			if !res.OK {
				t.Errorf("%s/%s: reference rejects (%s at %d), example expects tokens", feature, sp.Name, res.Reason, res.FailStart)
				continue
			}
			for i, want := range sp.Tokens {
				if i >= len(res.Toks) {
					t.Errorf("%s/%s: reference has fewer tokens", feature, sp.Name)
					break
				}
				got := res.Toks[i]
				k := ymlKind[want.Kind]
				if k == "" {
					k = want.Kind
				}
				if want.Kind != "" && string(got.Kind) != k {
					t.Errorf("%s/%s: token %d kind %s, example %s", feature, sp.Name, i, got.Kind, want.Kind)
				}
				if want.Value != "" && want.Value != "undefined" && got.Value != want.Value {
					t.Errorf("%s/%s: token %d value %q, example %q", feature, sp.Name, i, got.Value, want.Value)
				}
				if want.End != 0 && (got.Start != want.Start || got.End != want.End) {
					t.Errorf("%s/%s: token %d extent [%d,%d), example [%d,%d)", feature, sp.Name, i, got.Start, got.End, want.Start, want.End)
				}
			}
		}
	}
	t.Logf("reference lexer agrees with %d examples", n)
}

func TestSelfParser(t *testing.T) {
	for _, f := range []struct {
		rel    string
		schema bool
	}{{"parser/query_test.yml", false}, {"parser/schema_test.yml", true}} {
		n := 0
		for feature, specs := range readFeatures(t, f.rel) {
			for _, sp := range specs {
				// the examples pin two recorded deviations: empty documents and enum values true/false/null
				rp := refParseText([]rune(sp.Input), f.schema, ref.LexOpts{BlockTakesLastThreeQuotes: true}, ref.ParseOpts{AllowEmpty: true, EnumValueAnyName: true})
				n++
				if (sp.Error == nil) != rp.accept {
					t.Errorf("%s %s/%s: reference accept=%v, example error=%v\n%s", f.rel, feature, sp.Name, rp.accept, sp.Error, sp.Input)
				}
			}
		}
		t.Logf("reference parser agrees with %d examples of %s", n, f.rel)
	}
}

type importedSpec struct {
	Name   string
	Rule   string
	Schema string
	Query  string
	Errors []struct {
		Message string
	}
}

type importedDeviation struct {
	Rule string
	Skip string
}

func TestSelfValidator(t *testing.T) {
	root := filepath.Join(kit.RepoDir(), "validator", "imported")
	var rawSchemas []string
	b, err := os.ReadFile(filepath.Join(root, "spec", "schemas.yml"))
	if err != nil {
		t.Fatal(err)
	}
	if err := yaml.Unmarshal(b, &rawSchemas); err != nil {
		t.Fatal(err)
	}
	var deviations []importedDeviation
	b, _ = os.ReadFile(filepath.Join(root, "deviations.yml"))
	_ = yaml.Unmarshal(b, &deviations)
	load := func(text string) *ref.Schema {
		lr := ref.Lex([]rune(text), ref.LexOpts{})
		if !lr.OK {
			return nil
		}
		d, fail := ref.ParseSchema(ref.StripComments(lr.Toks), ref.ParseOpts{AllowEmpty: true})
		if fail >= 0 {
			return nil
		}
		m, viol, unsup := ref.Merge(d)
		if unsup != "" || len(viol) > 0 {
			return nil
		}
		return m
	}
	var schemas []*ref.Schema
	for i, s := range rawSchemas {
		m := load(s)
		if m == nil {
			t.Fatalf("reference cannot load schemas.yml[%d]", i)
		}
		if v := m.Validate(ref.ValidateOpts{}); len(v) > 0 {
			t.Errorf("reference rejects schemas.yml[%d]: %v", i, v)
		}
		schemas = append(schemas, m)
	}
	files, _ := filepath.Glob(filepath.Join(root, "spec", "*.spec.yml"))
	total, skipped := 0, 0
	for _, file := range files {
		ruleFile := strings.TrimSuffix(filepath.Base(file), ".spec.yml")
		var specs []importedSpec
		b, _ := os.ReadFile(file)
		if err := yaml.Unmarshal(b, &specs); err != nil {
			t.Fatalf("%s: %v", file, err)
		}
	spec:
		for _, sp := range specs {
			for _, d := range deviations {
				if d.Skip != "" && regexp.MustCompile("^"+d.Rule+"$").MatchString(ruleFile+"/"+sp.Name) {
					skipped++
					continue spec
				}
			}
			var m *ref.Schema
			if idx, err := strconv.Atoi(sp.Schema); err == nil {
				m = schemas[idx]
			} else {
				m = load(sp.Schema)
			}
			if m == nil {
				skipped++
				continue
			}
			lr := ref.Lex([]rune(sp.Query), ref.LexOpts{})
			if !lr.OK {
				skipped++
				continue
			}
			doc, fail := ref.ParseQuery(ref.StripComments(lr.Toks), ref.ParseOpts{})
			if fail >= 0 {
				skipped++
				continue
			}
			total++
			var mine []string
			for _, v := range ref.ValidateDoc(m, doc, ref.DocOpts{}) {
				if v.Rule == sp.Rule {
					mine = append(mine, v.Msg)
				}
			}
			if selfValidatorExpectedDifference[ruleFile+"/"+sp.Name] {
				continue
			}
			if (len(sp.Errors) > 0) != (len(mine) > 0) {
				t.Errorf("%s/%s (rule %s): example expects %d error(s), reference reports %v\n%s", ruleFile, sp.Name, sp.Rule, len(sp.Errors), mine, sp.Query)
			}
		}
	}
	t.Logf("reference validator evaluated on %d imported graphql-js cases (%d skipped like the repository's own runner or not parseable)", total, skipped)
	if total < 300 {
		t.Errorf("only %d imported cases evaluated", total)
	}
}

// Imported cases whose expectation (as adapted by the repository) encodes a recorded deviation
// of the implementation from the specification rather than the specification itself.
//
// Two OverlappingFieldsCanBeMerged cases come from graphql-js runs in which the types T / Type
// do not exist; the repository injected them as object types into schema 0. With them present
// the two same-named fields have different object parents, so the specification's "different
// fields" clause does not apply (the documents stay invalid: unknown field, impossible spread).
var selfValidatorExpectedDifference = map[string]bool{
	"OverlappingFieldsCanBeMergedRule/reports deep conflict after nested fragments":             true,
	"OverlappingFieldsCanBeMergedRule/finds invalid cases even with field named after fragment": true,
}

func init() {
	_ = fmt.Sprintf
}
