package checks

import (
	"encoding/json"
	"strings"
	"testing"

	"pgregory.net/rapid"

	"verif/harness/gen"
	"verif/harness/kit"
)

// C03 — tokenisation conforms to the lexical grammar (DESIGN.md 6/C03).

var c03Alphabet = []string{`"`, `\`, "u", "n", "0", "1", ".", "-", "e", "+", "a", "_", "é", "#", "\n", "\r", " ", ",", "{", "\uFEFF"}
var c03BlockAlphabetQuick = []string{" ", "\n", "\r", "a", `"`, `\`}
var c03BlockAlphabetThorough = []string{" ", "\t", "\n", "\r", "a", `"`, `\`}
var c03StringAlphabet = []string{`\`, "u", "0", "F", "n", `"`, "x", "é"}

type c03Case struct {
	Input string `json:"input"`
}

func c03Eval(r *kit.Rec, input string) (viol string, nontrivial bool) {
	v, known, d := checkLexConformance("C03", input)
	for _, k := range known {
		r.Known(k)
	}
	return v, d.NTokens >= 2 || d.Decoded || (d.Failed && d.NTokens >= 1)
}

func TestC03(t *testing.T) {
	r := kit.New(t, "C03")
	defer r.Finish()
	r.SetRule("inputs: (a) every string up to length L over the 20-symbol alphabet " + strings.Join(quoteAll(c03Alphabet), " ") +
		"; (b) every block-string body up to length B over {space,(tab),LF,CR,a,\",\\} wrapped in triple quotes and followed by a sentinel name, and up to length 5 over {space, LF, a, U+00A0, U+2028, U+0085, U+3000, U+FEFF} (Unicode spaces are content); " +
		"(c) every quoted-string body up to length 6 over {\\,u,0,F,n,\",x,é}; (d) random valid-UTF-8 soups of lexical fragments; (e) two renderings of one token list with different ignored text. " +
		"non-trivial = the grammar yields >= 2 tokens, or a string token whose value differs from its lexeme, or it fails after at least one token; distinct by input")
	r.Assume("reference lexer ref.Lex is a faithful transcription of the October 2021 lexical grammar (self-tested against lexer/lexer_test.yml)")
	r.Assume("code points above U+FFFF are treated as SourceCharacter; escapes denoting UTF-16 surrogates are compared by kind and extent only")
	kit.RegisterReplayer("C03", "enum", c03Replay)
	kit.RegisterReplayer("C03", "block", c03Replay)
	kit.RegisterReplayer("C03", "string", c03Replay)
	kit.RegisterReplayer("C03", "soup", c03Replay)
	kit.RegisterReplayer("C03", "corpus", c03Replay)
	kit.RegisterReplayer("C03", "ignored", c03ReplayIgnored)
	if r.ReplayIfRequested() {
		return
	}

	// corpus: witnesses of known findings and past failures
	for _, in := range c03Corpus {
		r.Begin("corpus", func() interface{} { return c03Case{in} })
		if v, _ := c03Eval(r, in); v != "" {
			r.Violation("corpus", c03Case{in}, "%s", v)
		}
		r.Case(true, "corpus:"+in)
		r.End()
	}

	// (a) exhaustive strings
	maxLen := kit.Pick(5, 6)
	enumAll(r, "enum", c03Alphabet, maxLen, "", "", func(s string) (string, bool) { return c03Eval(r, s) })
	r.Exhaustive(sprintf("all strings of length <= %d over the 20-symbol alphabet", maxLen))

	// (b) exhaustive block string bodies
	ba, bl := c03BlockAlphabetQuick, 7
	if kit.Thorough() {
		ba, bl = c03BlockAlphabetThorough, 9
	}
	enumAll(r, "block", ba, bl, `"""`, `""" z`, func(s string) (string, bool) { return c03Eval(r, s) })
	r.Exhaustive(sprintf("all block-string bodies of length <= %d over %d symbols, wrapped in triple quotes + sentinel", bl, len(ba)))

	// (b2) block string bodies over characters that look like blank space but are content: only
	// space and tab are WhiteSpace for BlockStringValue, only LF / CR end a line
	ub := []string{" ", "\n", "a", "\u00a0", "\u2028", "\u0085", "\u3000", "\uFEFF"}
	ubl := kit.Pick(5, 6)
	enumAll(r, "block", ub, ubl, `"""`, `""" z`, func(s string) (string, bool) { return c03Eval(r, s) })
	r.Exhaustive(sprintf("all block-string bodies of length <= %d over {space, LF, a, U+00A0, U+2028, U+0085, U+3000, U+FEFF}", ubl))

	// (c) exhaustive quoted string bodies
	enumAll(r, "string", c03StringAlphabet, 6, `"`, `" z`, func(s string) (string, bool) { return c03Eval(r, s) })
	r.Exhaustive("all quoted-string bodies of length <= 6 over 8 symbols, wrapped in quotes + sentinel")

	if r.Violations() > 0 {
		return
	}

	// (d) random soups
	r.Rapid("soup", kit.Pick(30000, 400000), func(rt *rapid.T) {
		in := gen.Soup(true).Draw(rt, "input")
		r.Begin("soup", func() interface{} { return c03Case{in} })
		defer r.End()
		v, known, d := checkLexConformance("C03", in)
		for _, k := range known {
			r.Known(k)
		}
		nt := d.NTokens >= 2 || d.Decoded || (d.Failed && d.NTokens >= 1)
		r.Case(nt, in)
		if nt && r.WantSample("soup") {
			r.Sample("soup", in)
		}
		if len(in) > 200 {
			r.Class("soup:long")
		}
		if d.Failed {
			r.Class("soup:rejected")
		} else {
			r.Class("soup:accepted")
		}
		if v != "" {
			r.Failf(rt, "soup", c03Case{in}, "%s", v)
		}
	})

	// (e) ignored characters never change the tokens around them
	r.Rapid("ignored", kit.Pick(20000, 200000), func(rt *rapid.T) {
		c := genIgnoredPair(rt)
		r.Begin("ignored", func() interface{} { return c })
		defer r.End()
		v := c03IgnoredEval(c)
		r.Case(len(c.Lexemes) >= 2, c.A+"\x00"+c.B)
		if r.WantSample("ignored") {
			r.Sample("ignored", c)
		}
		if v != "" {
			r.Failf(rt, "ignored", c, "%s", v)
		}
	})
}

func c03Replay(raw json.RawMessage) string {
	var c c03Case
	if err := json.Unmarshal(raw, &c); err != nil {
		return "bad replay case: " + err.Error()
	}
	v, _, _ := checkLexConformance("C03", c.Input)
	return v
}

// witnesses of the findings of DESIGN.md section 8 plus boundary inputs; every entry is checked on every run
var c03Corpus = []string{
	"123abc", "0x", "1.2.3", "1e5e", "-1a", "1_", "1.0a", "1.", "1e", "00", "-", "0.e1",
	`"""abc` + "\n" + `  def"""`, `"""  abc` + "\n" + `    def"""`, `"""` + "\n" + `  a` + "\n" + `   b` + "\n" + `"""`,
	`"""a""""`, `"""a"""""`, `"""a""""""`, `""""""`, `"""`, `""""`, `"""""`, `"""\""""""`, `"""\"""`,
	"\uFEFF{", "{\uFEFF}", "a\uFEFFb", "\"\uFEFF\"", "#\uFEFF\n", "..", "...", "....", ". ..", "\"\\u00e9\"", "\"\\uD83D\\uDE00\"", "\"\\u12\"", "\"\\u12",
	"\"a\nb\"", "\"a\rb\"", "\"\t\"", "\"\x7f\"", "#\x7f\n", "\x7f", "\u00a0", "\u2028", "é", "aé", "1é", "\"é", "😀",
}
