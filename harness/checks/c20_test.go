package checks

import (
	"encoding/json"
	"fmt"
	"reflect"
	"regexp"
	"strings"
	"testing"

	"github.com/vektah/gqlparser/v2"
	"github.com/vektah/gqlparser/v2/ast"
	"github.com/vektah/gqlparser/v2/gqlerror"
	"github.com/vektah/gqlparser/v2/lexer"
	"github.com/vektah/gqlparser/v2/parser"
	"github.com/vektah/gqlparser/v2/validator"
	"pgregory.net/rapid"

	"verif/harness/gen"
	"verif/harness/kit"
)

// C20 — errors are well-formed: message, rule, location, file, spec-shaped JSON, path.

var (
	reQuoted = regexp.MustCompile(`"[^"]*"`)
	reNumber = regexp.MustCompile(`-?\d+(\.\d+)?`)
	reSpaces = regexp.MustCompile(`\s+`)
)

// template replaces quoted names, numbers and literal fragments by placeholders.
func template(msg string) string {
	m := reQuoted.ReplaceAllString(msg, `"_"`)
	m = reNumber.ReplaceAllString(m, "N")
	m = reSpaces.ReplaceAllString(m, " ")
	if len(m) > 120 {
		m = m[:120]
	}
	return m
}

type errExpect struct {
	entry      string
	file       string // name of the source the error must carry, "" if the source is unnamed, "?" if not applicable
	files      []string
	validation bool
	needLoc    bool
}

// checkErrorShape validates one error value; it returns "" or what is wrong.
func checkErrorShape(err error, ex errExpect) (viol string, tmpl string) {
	if err == nil {
		return "", ""
	}
	ge, ok := err.(*gqlerror.Error)
	if !ok {
		if strings.HasPrefix(err.Error(), "exceeded token limit") {
			return "", "exceeded token limit of N"
		}
		return fmt.Sprintf("%s: error of type %T is not a *gqlerror.Error: %v", ex.entry, err, err), ""
	}
	tmpl = ex.entry + ": " + template(ge.Message)
	if strings.TrimSpace(ge.Message) == "" {
		return ex.entry + ": error with an empty message", tmpl
	}
	if ex.validation {
		if ge.Rule == "" {
			return fmt.Sprintf("%s: validation error without rule: %s", ex.entry, ge.Message), tmpl
		}
		if len(ge.Locations) == 0 {
			return fmt.Sprintf("%s: validation error of rule %s without location: %s", ex.entry, ge.Rule, ge.Message), tmpl
		}
	}
	if ex.needLoc && len(ge.Locations) == 0 {
		return fmt.Sprintf("%s: error without location: %s", ex.entry, ge.Message), tmpl
	}
	if ex.file != "?" {
		got, _ := ge.Extensions["file"].(string)
		switch {
		case len(ex.files) > 0:
			found := false
			for _, f := range ex.files {
				if f == got {
					found = true
				}
			}
			if !found {
				return fmt.Sprintf("%s: error %q carries file %q, the sources are %v", ex.entry, ge.Message, got, ex.files), tmpl
			}
		case got != ex.file:
			return fmt.Sprintf("%s: error %q carries file %q, the source is named %q", ex.entry, ge.Message, got, ex.file), tmpl
		}
	}
	// JSON shape
	b, jerr := json.Marshal(ge)
	if jerr != nil {
		return fmt.Sprintf("%s: error does not encode to JSON: %v", ex.entry, jerr), tmpl
	}
	var obj map[string]interface{}
	if json.Unmarshal(b, &obj) != nil {
		return ex.entry + ": JSON encoding of the error is not an object", tmpl
	}
	if m, ok := obj["message"].(string); !ok || m == "" {
		return ex.entry + ": JSON encoding lacks a string message: " + string(b), tmpl
	}
	if locs, present := obj["locations"]; present {
		l, ok := locs.([]interface{})
		if !ok {
			return ex.entry + ": locations is not a list: " + string(b), tmpl
		}
		for _, x := range l {
			lm, ok := x.(map[string]interface{})
			if !ok {
				return ex.entry + ": a location is not an object: " + string(b), tmpl
			}
			line, okl := lm["line"].(float64)
			col, okc := lm["column"].(float64)
			if !okl || !okc || line < 1 || col < 1 || line != float64(int(line)) || col != float64(int(col)) {
				return fmt.Sprintf("%s: location %v needs positive integer line and column (error %q)", ex.entry, lm, ge.Message), tmpl
			}
		}
	}
	if p, present := obj["path"]; present {
		l, ok := p.([]interface{})
		if !ok {
			return ex.entry + ": path is not a list: " + string(b), tmpl
		}
		for _, x := range l {
			switch e := x.(type) {
			case string:
			case float64:
				if e < 0 || e != float64(int(e)) {
					return ex.entry + ": path index is not a non-negative integer: " + string(b), tmpl
				}
			default:
				return ex.entry + ": path element is neither a name nor an index: " + string(b), tmpl
			}
		}
	}
	if v := pathRoundTrip(ge.Path); v != "" {
		return ex.entry + ": " + v, tmpl
	}
	if ge.Error() == "" {
		return ex.entry + ": Error() is empty", tmpl
	}
	return "", tmpl
}

func pathRoundTrip(p ast.Path) string {
	b, err := json.Marshal(p)
	if err != nil {
		return fmt.Sprintf("path %v does not encode: %v", p, err)
	}
	var back ast.Path
	if err := json.Unmarshal(b, &back); err != nil {
		return fmt.Sprintf("path %s does not decode: %v", b, err)
	}
	if len(back) != len(p) {
		return fmt.Sprintf("path %v decodes to %v", p, back)
	}
	for i := range p {
		if !reflect.DeepEqual(p[i], back[i]) {
			return fmt.Sprintf("path %v decodes to %v", p, back)
		}
	}
	return ""
}

type c20Case struct {
	Kind    string        `json:"kind"` // lex query schema load validate coerce path
	Sources []srcText     `json:"sources,omitempty"`
	Schema  string        `json:"schema,omitempty"`
	Query   string        `json:"query,omitempty"`
	QName   string        `json:"qname,omitempty"`
	Limit   int           `json:"limit,omitempty"`
	Vars    interface{}   `json:"vars,omitempty"`
	Path    []interface{} `json:"path,omitempty"`
	Replace []int         `json:"replace,omitempty"` // validate: indices into allRules re-installed through validator.ReplaceRule first
}

func c20Eval(c c20Case) (viol string, tmpls []string) {
	note := func(v, t string) bool {
		if t != "" {
			tmpls = append(tmpls, t)
		}
		if v != "" && viol == "" {
			viol = v
		}
		return v != ""
	}
	pan := kit.Safely(func() {
		switch c.Kind {
		case "lex":
			s := c.Sources[0]
			lx := lexer.New(&ast.Source{Name: s.Name, Input: s.Input})
			for i := 0; i <= len(s.Input)+1; i++ {
				tok, err := lx.ReadToken()
				if err != nil {
					note(checkErrorShape(err, errExpect{entry: "lexer", file: s.Name, needLoc: true}))
					return
				}
				if tok.Kind == lexer.EOF {
					return
				}
			}
		case "query":
			s := c.Sources[0]
			_, err := parser.ParseQuery(&ast.Source{Name: s.Name, Input: s.Input})
			note(checkErrorShape(err, errExpect{entry: "ParseQuery", file: s.Name, needLoc: true}))
			_, err = parser.ParseQueryWithTokenLimit(&ast.Source{Name: s.Name, Input: s.Input}, c.Limit)
			note(checkErrorShape(err, errExpect{entry: "ParseQueryWithTokenLimit", file: s.Name, needLoc: true}))
		case "schema":
			var srcs []*ast.Source
			var names []string
			for _, s := range c.Sources {
				srcs = append(srcs, &ast.Source{Name: s.Name, Input: s.Input})
				names = append(names, s.Name)
			}
			_, err := parser.ParseSchema(srcs[0])
			note(checkErrorShape(err, errExpect{entry: "ParseSchema", file: names[0], needLoc: true}))
			_, err = parser.ParseSchemaWithLimit(srcs[0], c.Limit)
			note(checkErrorShape(err, errExpect{entry: "ParseSchemaWithLimit", file: names[0], needLoc: true}))
			_, err = parser.ParseSchemas(srcs...)
			note(checkErrorShape(err, errExpect{entry: "ParseSchemas", files: names, needLoc: true}))
			_, err = parser.ParseSchemasWithLimit(c.Limit, srcs...)
			note(checkErrorShape(err, errExpect{entry: "ParseSchemasWithLimit", files: names, needLoc: true}))
		case "load":
			var srcs []*ast.Source
			names := []string{"prelude.graphql"}
			for _, s := range c.Sources {
				srcs = append(srcs, &ast.Source{Name: s.Name, Input: s.Input})
				names = append(names, s.Name)
			}
			_, err := gqlparser.LoadSchema(srcs...)
			note(checkErrorShape(err, errExpect{entry: "LoadSchema", files: names, needLoc: true}))
		case "validate":
			s, err := libLoadSchema(c.Schema)
			if err != nil {
				return
			}
			d, perr := parser.ParseQuery(&ast.Source{Name: c.QName, Input: c.Query})
			if perr != nil {
				return
			}
			for _, e := range validator.Validate(s, d) {
				if note(checkErrorShape(e, errExpect{entry: "Validate/" + e.Rule, file: c.QName, validation: true})) {
					return
				}
			}
			// the same with the exported rule list in which the four rules that have a variant
			// without suggestions are replaced by it
			if d2, perr := parser.ParseQuery(&ast.Source{Name: c.QName, Input: c.Query}); perr == nil {
				rs := append([]validator.Rule{}, allRules...)
				for i := range rs {
					for _, w := range withoutSuggestions {
						if rs[i].Name == w.std.Name {
							rs[i] = w.without
						}
					}
				}
				for _, e := range validator.Validate(s, d2, rs...) {
					if note(checkErrorShape(e, errExpect{entry: "Validate(without suggestions)/" + e.Rule, file: c.QName, validation: true})) {
						return
					}
				}
			}
			// rule-set editing API (validator.ReplaceRule/AddRule/RemoveRule on the global set): replacing a
			// registered rule by itself and adding then removing a probe rule leave the set as it was, so the
			// default rules must report what they reported before, every error still naming its rule; the
			// probe's own error carries the probe's name while it is installed.
			if len(c.Replace) > 0 {
				before := keysOf(validator.Validate(s, mustParseQuery(c.QName, c.Query)), func(r string) string { return r }, false)
				for _, i := range c.Replace {
					if i >= 0 && i < len(allRules) {
						// the replacement does what the rule did and marks every operation, so that the
						// name under which it now runs is observable whatever the document contains
						orig := allRules[i]
						validator.ReplaceRule(orig.Name, func(observers *validator.Events, addError validator.AddErrFunc) {
							orig.RuleFunc(observers, addError)
							observers.OnOperation(func(walker *validator.Walker, op *ast.OperationDefinition) {
								addError(validator.Message("replaced:"+orig.Name), validator.At(op.Position))
							})
						})
					}
				}
				marks := map[string]int{}
				const probe = "VerifProbeRule"
				validator.ReplaceRule(probe, func(observers *validator.Events, addError validator.AddErrFunc) {
					observers.OnOperation(func(walker *validator.Walker, op *ast.OperationDefinition) {
						addError(validator.Message("probe"), validator.At(op.Position))
					})
				})
				d3 := mustParseQuery(c.QName, c.Query)
				var rest gqlerror.List
				probed := 0
				for _, e := range validator.Validate(s, d3) {
					if e.Message == "probe" {
						probed++
						if e.Rule != probe {
							note(fmt.Sprintf("Validate(after ReplaceRule of an unknown name): the added rule's error names rule %q, want %q", e.Rule, probe), "")
						}
						continue
					}
					if strings.HasPrefix(e.Message, "replaced:") {
						marks[e.Message[len("replaced:"):]]++
						if e.Rule != e.Message[len("replaced:"):] {
							note(fmt.Sprintf("Validate(after ReplaceRule): an error of the rule installed as %q names rule %q", e.Message[len("replaced:"):], e.Rule), "")
						}
						continue
					}
					rest = append(rest, e)
					if note(checkErrorShape(e, errExpect{entry: "Validate(after ReplaceRule)/" + e.Rule, file: c.QName, validation: true})) {
						break
					}
				}
				validator.RemoveRule(probe)
				for _, i := range c.Replace {
					if i >= 0 && i < len(allRules) {
						if marks[allRules[i].Name] != len(d3.Operations) {
							note(fmt.Sprintf("Validate(after ReplaceRule): the replacement of %s ran %d times for %d operations", allRules[i].Name, marks[allRules[i].Name], len(d3.Operations)), "")
						}
						validator.ReplaceRule(allRules[i].Name, allRules[i].RuleFunc)
					}
				}
				if probed != len(d3.Operations) {
					note(fmt.Sprintf("Validate(after ReplaceRule of an unknown name): the added rule reported %d errors for %d operations", probed, len(d3.Operations)), "")
				}
				after := keysOf(rest, func(r string) string { return r }, false)
				if strings.Join(before, "\n") != strings.Join(after, "\n") {
					note(fmt.Sprintf("Validate(after ReplaceRule of rules %v by themselves): errors differ: before %q, after %q", c.Replace, before, after), "")
				}
				for _, e := range validator.Validate(s, mustParseQuery(c.QName, c.Query)) {
					if e.Message == "probe" || strings.HasPrefix(e.Message, "replaced:") {
						note("Validate(after RemoveRule and after putting the original rules back): a removed or replaced rule still reports: "+e.Message, "")
						break
					}
				}
			}
			if c.QName == "" {
				_, errs := gqlparser.LoadQuery(s, c.Query)
				for _, e := range errs {
					if note(checkErrorShape(e, errExpect{entry: "LoadQuery/" + e.Rule, file: "", validation: e.Rule != ""})) {
						return
					}
				}
				if b, jerr := json.Marshal(errs); jerr != nil || (len(errs) > 0 && !strings.HasPrefix(string(b), "[{")) {
					note("LoadQuery: the error list does not encode to a JSON list of objects", "")
				}
			}
		case "coerce":
			s, err := libLoadSchema(c.Schema)
			if err != nil {
				return
			}
			d, errs := gqlparser.LoadQuery(s, c.Query)
			if len(errs) > 0 {
				return
			}
			vars, _ := decodeGo(c.Vars).(map[string]interface{})
			_, cerr := validator.VariableValues(s, d.Operations[0], vars)
			if cerr != nil {
				v, t := checkErrorShape(cerr, errExpect{entry: "VariableValues", file: "?"})
				if v == "" {
					if ge := cerr.(*gqlerror.Error); len(ge.Path) == 0 {
						v = "VariableValues: coercion error without path: " + ge.Message
					}
				}
				note(v, t)
			}
		case "path":
			var p ast.Path
			for _, e := range c.Path {
				switch x := e.(type) {
				case string:
					p = append(p, ast.PathName(x))
				case float64:
					p = append(p, ast.PathIndex(int(x)))
				case int:
					p = append(p, ast.PathIndex(x))
				}
			}
			if v := pathRoundTrip(p); v != "" {
				note(v, "")
			}
			_ = p.String()
		}
	})
	if pan != nil && viol == "" {
		if c.Kind == "path" {
			viol = "path handling panicked: " + pan.Value
		}
		// other crashes belong to C01/C02/C14
	}
	return
}

func TestC20(t *testing.T) {
	r := kit.New(t, "C20")
	defer r.Finish()
	r.SetRule("error-biased use of every entry point: lexer and both parsers (with and without limits, named and unnamed sources) on lexical soups, truncated and mutated documents; LoadSchema on G7 single-fault schemas split over named sources; Validate (default rules, the rule list with the four without-suggestions variants, and the default rules again after editing the global rule set: ReplaceRule of up to six registered rules by themselves plus a probe rule added through ReplaceRule and removed through RemoveRule - same errors, each still naming its rule, the probe error naming the probe) and LoadQuery on G9-faulty, misspelt and type-blind documents from named and unnamed sources; VariableValues on G10 defects; ast.Path values of length <= 6 over names and indices (all of length <= 3 over a small alphabet, random beyond). " +
		"oracle: non-empty message; validation errors have rule and >= 1 location; extensions.file == the source name; JSON encoding is an object with string message, locations of positive integer line/column (both present), path of strings and non-negative integers; paths round-trip through JSON. " +
		"non-trivial = an error was produced; distinct by message template (quoted names and numbers replaced) per entry point")
	replay := func(raw json.RawMessage) string {
		var c c20Case
		_ = json.Unmarshal(raw, &c)
		v, _ := c20Eval(c)
		return v
	}
	for _, k := range []string{"syntax", "load", "validate", "coerce", "path", "corpus"} {
		kit.RegisterReplayer("C20", k, replay)
	}
	if r.ReplayIfRequested() {
		return
	}
	templates := map[string]bool{}
	record := func(check string, c c20Case, fail func(string)) {
		r.Begin(check, func() interface{} { return c })
		v, tm := c20Eval(c)
		r.End()
		for _, t := range tm {
			if !templates[t] {
				templates[t] = true
				r.Case(true, "template:"+t)
				if r.WantSample(check) {
					r.Sample(check, map[string]interface{}{"template": t, "case": c})
				}
			} else {
				r.Case(false, "")
			}
		}
		if len(tm) == 0 {
			r.Case(false, "")
		}
		if v != "" {
			fail(v)
		}
	}
	// paths: exhaustive up to length 3 over {a, "", b.c, 0, 1, 7}
	elems := []interface{}{"a", "", "b.c", "c\x01\x7f\U000E0001\"", 0, 7}
	var enum func(prefix []interface{}, depth int)
	enum = func(prefix []interface{}, depth int) {
		c := c20Case{Kind: "path", Path: append([]interface{}{}, prefix...)}
		if v, _ := c20Eval(c); v != "" {
			r.Violation("path", c, "%s", v)
		}
		r.CaseEnum(len(prefix) > 0)
		if depth == 3 {
			return
		}
		for _, e := range elems {
			enum(append(prefix, e), depth+1)
		}
	}
	enum(nil, 0)
	r.Exhaustive("all paths of length <= 3 over 6 elements (names incl. empty and dotted, indices)")
	for _, in := range append(append([]string{}, c04Corpus...), c05NearMisses...) {
		for _, name := range []string{"", "f.graphql"} {
			record("corpus", c20Case{Kind: "query", Sources: []srcText{{name, in}}, Limit: 3}, func(v string) {
				r.Violation("corpus", c20Case{Kind: "query", Sources: []srcText{{name, in}}, Limit: 3}, "%s", v)
			})
			record("corpus", c20Case{Kind: "schema", Sources: []srcText{{name, in}, {"second.graphql", in}}, Limit: 3}, func(v string) {
				r.Violation("corpus", c20Case{Kind: "schema", Sources: []srcText{{name, in}, {"second.graphql", in}}, Limit: 3}, "%s", v)
			})
		}
	}
	if r.Violations() > 0 {
		return
	}
	r.Rapid("path", kit.Pick(2000, 100000), func(rt *rapid.T) {
		n := rapid.IntRange(0, 6).Draw(rt, "len")
		var p []interface{}
		for i := 0; i < n; i++ {
			if rapid.Bool().Draw(rt, "isname") {
				p = append(p, rapid.SampledFrom([]string{"a", "variable", "", "x.y", "[0]", "é", "0", "a\x01", "\x7f", "\U000E0001", "q\"uote", "back\\slash", "\u2028", "\U0010FFFF", "\x00", "tab\t", "new\nline"}).Draw(rt, "name"))
			} else {
				p = append(p, rapid.IntRange(0, 1<<31-1).Draw(rt, "index"))
			}
		}
		c := c20Case{Kind: "path", Path: p}
		if v, _ := c20Eval(c); v != "" {
			r.Failf(rt, "path", c, "%s", v)
		}
		r.Case(n >= 4, fmt.Sprint(p))
	})
	r.Rapid("syntax", kit.Pick(15000, 300000), func(rt *rapid.T) {
		var text string
		kind := rapid.SampledFrom([]string{"lex", "query", "schema"}).Draw(rt, "kind")
		switch rapid.IntRange(0, 2).Draw(rt, "src") {
		case 0:
			text = gen.Soup(false).Draw(rt, "soup")
		case 1:
			lex := gen.QueryLexemes(gen.QueryDoc().Draw(rt, "qdoc"), gen.Rand(rt))
			lex, _ = mutateLexemes(rt, lex, c05MutAlphabet)
			text = gen.JoinRandom(rt, lex, true)
		default:
			lex := gen.SchemaLexemes(gen.SchemaDocTree().Draw(rt, "sdoc"), gen.Rand(rt))
			lex, _ = mutateLexemes(rt, lex, c06Alphabet)
			text = gen.JoinRandom(rt, lex, true)
		}
		if rapid.IntRange(0, 4).Draw(rt, "break") == 0 {
			text += rapid.SampledFrom([]string{` "abc`, " \x01", " 1.", ` """x`, " \\", " ..", ` "\u12"`, ` "\q"`, " 00", " 1e", " '", " \x7f"}).Draw(rt, "broken")
		}
		name := rapid.SampledFrom([]string{"", "doc.graphql", "dir/é.graphql"}).Draw(rt, "name")
		c := c20Case{Kind: kind, Sources: []srcText{{name, text}}, Limit: rapid.SampledFrom([]int{0, 1, 3, 10}).Draw(rt, "limit")}
		if kind == "schema" {
			c.Sources = append(c.Sources, srcText{"second.graphql", text})
		}
		record("syntax", c, func(v string) { r.Failf(rt, "syntax", c, "%s", v) })
	})
	r.Rapid("load", kit.Pick(2000, 60000), func(rt *rapid.T) {
		st := gen.TypedSchema().Draw(rt, "schema")
		if _, ok := gen.ApplySchemaFault(rt, &st, rapid.IntRange(0, gen.NumSchemaFaults()-1).Draw(rt, "fault")); !ok {
			rt.Skip("no target")
		}
		pieces := piecesOf(st, gen.Canon)
		ns := rapid.IntRange(1, 3).Draw(rt, "nsources")
		srcs := make([]srcText, ns)
		for i := range srcs {
			srcs[i].Name = fmt.Sprintf("part%d.graphql", i)
		}
		for _, p := range pieces {
			i := rapid.IntRange(0, ns-1).Draw(rt, "src")
			srcs[i].Input += p.Text + "\n"
		}
		c := c20Case{Kind: "load", Sources: srcs}
		record("load", c, func(v string) { r.Failf(rt, "load", c, "%s", v) })
	})
	r.Rapid("validate", kit.Pick(2500, 100000), func(rt *rapid.T) {
		vc, ok := genC10Case(rt)
		if !ok || vc.Class == "two-schema-faults" {
			rt.Skip("no case")
		}
		c := c20Case{Kind: "validate", Schema: vc.Schema, Query: vc.Query, QName: rapid.SampledFrom([]string{"", "request.graphql"}).Draw(rt, "qname")}
		if rapid.IntRange(0, 2).Draw(rt, "edits") == 0 {
			c.Replace = rapid.SliceOfNDistinct(rapid.IntRange(0, len(allRules)-1), 1, 6, rapid.ID[int]).Draw(rt, "replace")
		}
		record("validate", c, func(v string) { r.Failf(rt, "validate", c, "%s", v) })
	})
	vs := gen.VarsSchema()
	r.Rapid("coerce", kit.Pick(5000, 200000), func(rt *rapid.T) {
		vc := gen.VarsOperation(rt, vs)
		vars := map[string]interface{}{}
		for i, ty := range vc.Types {
			if rapid.IntRange(0, 4).Draw(rt, "omit") == 0 {
				continue
			}
			val := gen.ConformingValue(rt, vs, ty, 3)
			if dv, ok := gen.InjectDefect(rt, vs, ty, val, rapid.SampledFrom(gen.VarDefects).Draw(rt, "defect")); ok {
				val = dv
			}
			vars[fmt.Sprintf("v%d", i)] = val
		}
		c := c20Case{Kind: "coerce", Schema: vc.Schema, Query: vc.Query, Vars: encodeGo(vars)}
		record("coerce", c, func(v string) { r.Failf(rt, "coerce", c, "%s", v) })
	})
	var list []string
	for t := range templates {
		list = append(list, t)
	}
	r.Extra("distinct_message_templates", len(list))
}

func mustParseQuery(name, text string) *ast.QueryDocument {
	d, err := parser.ParseQuery(&ast.Source{Name: name, Input: text})
	if err != nil {
		panic("c20: query stopped parsing: " + err.Error())
	}
	return d
}
