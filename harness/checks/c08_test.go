package checks

import (
	"encoding/json"
	"strings"
	"testing"

	"pgregory.net/rapid"

	"verif/harness/gen"
	"verif/harness/kit"
	"verif/harness/ref"
)

// C08 — validation accepts exactly the documents the validation rules allow.

func c08Replay(raw json.RawMessage) string {
	var c valCase
	if err := json.Unmarshal(raw, &c); err != nil {
		return "bad replay case: " + err.Error()
	}
	v, _, _, _, _ := checkVerdict("C08", c)
	return v
}

const c08Schema = `
directive @tag(name: String) repeatable on FIELD | QUERY
directive @once on FIELD
interface Node { id: ID! }
type A implements Node { id: ID! s: String n: Int }
type B implements Node { id: ID! s: B n: String }
union AB = A | B
enum Color { RED GREEN }
input Filter { color: Color = RED limit: Int! tags: [String!] nested: Filter }
input Choice @oneOf { a: Int b: String }
scalar JSON
type Query {
  node(id: ID!): Node
  ab: AB
  a(i: Int, f: Float, id: ID, c: Color, filter: Filter, l: [Int], ll: [[Int]], nn: Int! = 5, j: JSON, choice: Choice, b: Boolean, s: String): A
}
type Subscription { foo: Int bar: Int }
`

// witnesses of the validation findings of DESIGN.md section 8 and boundary cases
var c08Corpus = []string{
	`{ a(i: 2147483647) { n } }`, `{ a(i: 2147483648) { n } }`, `{ a(i: -2147483649) { n } }`, `{ a(i: {}) { n } }`, `{ a(c: {}) { n } }`, `{ a(s: {}) { n } }`, `{ a(b: {}) { n } }`,
	`{ a(f: 99999999999999999999) { n } }`, `{ a(id: 99999999999999999999) { n } }`, `{ a(f: 1) { n } }`, `{ a(id: 1) { n } }`, `{ a(id: 1.5) { n } }`, `{ a(i: 1.0) { n } }`,
	`{ x: a(l: [1]) { n } x: a(l: [2]) { n } }`, `{ x: a(l: [1]) { n } x: a(l: [1]) { n } }`, `{ x: a(filter: {limit: 1}) { n } x: a(filter: {limit: 2}) { n } }`,
	`{ x: a(filter: {limit: 1, color: RED}) { n } x: a(filter: {color: RED, limit: 1}) { n } }`,
	`{ ab { ... on A { k: s } ... on B { k: s { id } } } }`, `{ ab { ... on A { k: n } ... on B { k: n } } }`, `{ ab { ... on A { k: s } ... on B { k: n } } }`, `{ ab { ... on A { k: id } ... on B { k: id } } }`,
	`subscription { x: foo y: foo }`, `subscription { foo foo }`, `subscription { foo bar }`, `subscription { x: foo x: foo }`, `subscription { __typename }`, `subscription { foo ... { bar } }`,
	`{ a @tag @tag { n } }`, `{ a @tag(name: "x") @tag(name: "y") { n } }`, `{ a @once @once { n } }`, `query @tag @tag { a { n } }`,
	`query ($v: Int) { a(nn: $v) { n } }`, `query ($v: Int = 1) { a(nn: $v) { n } }`, `query ($v: Int!) { a(nn: $v) { n } }`, `query ($v: Int) { a(filter: {limit: $v}) { n } }`, `query ($v: Color) { a(filter: {limit: 1, color: $v}) { n } }`,
	`query ($v: Int) { a(choice: {a: $v}) { n } }`, `query ($v: Int!) { a(choice: {a: $v}) { n } }`, `{ a(choice: {a: $undefined}) { n } }`, `{ a(choice: {a: 1, b: "x"}) { n } }`, `{ a(choice: {}) { n } }`, `{ a(choice: {a: null}) { n } }`,
	`{ a { ...F } } fragment F on A { n } fragment G on A { x: a(choice: {a: $v}) }`, `fragment G on Query { a(choice: {a: $v}) { n } } { ...G }`,
	`{ a(l: 1) { n } }`, `{ a(ll: 1) { n } }`, `{ a(ll: [1]) { n } }`, `{ a(ll: [[1]]) { n } }`, `{ a(ll: [[[1]]]) { n } }`, `{ a(l: [[1]]) { n } }`, `{ a(l: null) { n } }`, `{ a(l: [null]) { n } }`,
	`{ a(j: {a: $u}) { n } }`, `query ($u: Int) { a(j: {a: [$u]}) { n } }`, `{ a(j: 99999999999999999999) { n } }`,
	`{ node(id: "1") { ... on A { s } ... on B { s { id } } id } }`, `{ node(id: "1") { id ... on Query { ab { __typename } } } }`,
	`{ __schema { types { fields { type { fields { type { fields { name } } } } } } } }`, `{ __type(name: "A") { fields { name } } }`, `{ a { __schema { types { name } } } }`,
	`{ ...F } fragment F on Query { ...G } fragment G on Query { ...F }`, `{ a { n } } { a { n } }`, `query Q { a { n } } query Q { a { n } }`, `mutation { a }`,
}

func TestC08(t *testing.T) {
	r := kit.New(t, "C08")
	defer r.Finish()
	r.SetRule("(schema, document) pairs: G6 schemas (interfaces implementing interfaces, unions, oneOf inputs, repeatable directives, argument and input-field defaults, custom scalars, nested list/non-null) x documents that are (a) valid by construction (G8), (b) the same with 1-3 faults from a catalogue of " + sprintf("%d", gen.NumDocFaults()) +
		" operators covering every rule (G9), (c) type-blind documents over the schema's name pools, (d) dense-overlap documents on a fixed schema (colliding response names at every level, fragments meeting under exclusive and common parents, cycles, twin recursion), (e) introspection documents with fragments on __Type spread at several depths; plus a corpus of witnesses. oracle: len(Validate) == 0 <=> the reference validator (spec section 5 + introspection depth) reports no violation. " +
		"non-trivial = document with a fragment or an argument; distinct by (schema, document) text")
	r.Assume("reference validator harness/ref/validate.go agrees with the 398 applicable imported graphql-js cases (TestSelfValidator); interfaces/unions without object possible types, @skip/@include on subscription roots and fragment variable definitions are outside the generated domain")
	for _, c := range []string{"corpus", "valid", "faulty", "blind", "overlap", "introspection"} {
		kit.RegisterReplayer("C08", c, c08Replay)
	}
	if r.ReplayIfRequested() {
		return
	}
	for _, q := range c08Corpus {
		c := valCase{Schema: c08Schema, Query: q, Class: "corpus"}
		r.Begin("corpus", func() interface{} { return c })
		v, known, skip, _, _ := checkVerdict("C08", c)
		r.End()
		for _, k := range known {
			r.Known(k)
		}
		r.Case(!skip, "corpus:"+q)
		if skip {
			r.HarnessErrorf("corpus case is outside the domain: %s", q)
		}
		if v != "" {
			r.Violation("corpus", c, "%s", v)
		}
	}
	if r.Violations() > 0 {
		return
	}
	run := func(check string, class int, n int) {
		r.Rapid(check, n, func(rt *rapid.T) {
			g, ok := genValidationCase(rt, class)
			if !ok {
				rt.Skip("no case")
			}
			c := g.Case
			r.Begin(check, func() interface{} { return c })
			defer r.End()
			v, known, skip, want, lib := checkVerdict("C08", c)
			for _, k := range known {
				r.Known(k)
			}
			if skip {
				r.HarnessErrorf("generated case is outside the domain (load=%v parse=%v): %s", lib.loadErr, lib.parseErr, c.Query)
				rt.Fatalf("harness error")
			}
			// generator self-checks against the reference
			switch class {
			case 0:
				if len(want) > 0 {
					r.HarnessErrorf("document valid by construction is invalid for the reference: %v\nschema: %s\nquery: %s", want, c.Schema, c.Query)
					rt.Fatalf("harness error")
				}
			case 1:
				// (with several faults one may undo another, e.g. a named type toggled twice: then the
				// document is judged like any other; only a single fault must show its rule)
				found := len(g.Faults) > 1
				for _, w := range want {
					if w.Rule == g.Faults[0].Rule {
						found = true
					}
				}
				if len(g.Faults) > 1 && len(want) == 0 {
					r.Class("faulty:faults-cancelled-each-other")
				} else if len(want) == 0 || !found {
					r.HarnessErrorf("fault %s (rule %s) is not reported by the reference: %v\nschema: %s\nquery: %s\nbefore: %s", g.Faults[0].Name, g.Faults[0].Rule, want, c.Schema, c.Query, g.Before)
					rt.Fatalf("harness error")
				}
				for _, f := range g.Faults {
					r.Class("fault:" + f.Name)
				}
			}
			for _, w := range want {
				r.Class("reference-rule:" + w.Rule)
			}
			for _, e := range lib.errs {
				r.Class("library-rule:" + e.Rule)
			}
			if len(want) == 0 {
				r.Class(check + ":valid")
			} else {
				r.Class(check + ":invalid")
			}
			r.Case(strings.Contains(c.Query, "...") || strings.Contains(c.Query, "("), c.Schema+"\x00"+c.Query)
			if r.WantSample(check) {
				r.Sample(check, c)
			}
			if v != "" {
				r.Failf(rt, check, c, "%s", v)
			}
		})
	}
	// dense-overlap documents on a fixed schema: few names, many collisions, fragments meeting under
	// exclusive and common parents, cycles; and introspection documents with fragments at several depths
	special := func(check string, n int, schema string, draw func(rt *rapid.T) *ref.Doc) {
		r.Rapid(check, n, func(rt *rapid.T) {
			d := draw(rt)
			c := valCase{Schema: schema, Query: gen.JoinPlain(gen.QueryLexemes(d, gen.Canon)), Class: check}
			r.Begin(check, func() interface{} { return c })
			defer r.End()
			v, known, skip, want, _ := checkVerdict("C08", c)
			for _, k := range known {
				r.Known(k)
			}
			if skip {
				r.HarnessErrorf("generated %s case is outside the domain: %s", check, c.Query)
				rt.Fatalf("harness error")
			}
			if len(want) == 0 {
				r.Class(check + ":valid")
			} else {
				r.Class(check + ":invalid")
				if len(want) == 1 || rulesOf(want) == want[0].Rule {
					r.Class(check + ":only-rule:" + want[0].Rule)
				}
			}
			r.Case(strings.Contains(c.Query, "...") || strings.Contains(c.Query, "("), c.Query)
			if r.WantSample(check) {
				r.Sample(check, c)
			}
			if v != "" {
				r.Failf(rt, check, c, "%s", v)
			}
		})
	}
	special("overlap", kit.Pick(12000, 400000), gen.OverlapSchema, func(rt *rapid.T) *ref.Doc {
		return gen.OverlapDocument(rt, rapid.IntRange(0, 3).Draw(rt, "acyclic") != 0)
	})
	special("introspection", kit.Pick(7500, 200000), c08Schema, gen.IntrospectionDocument)
	run("valid", 0, kit.Pick(4500, 200000))
	run("faulty", 1, kit.Pick(9000, 400000))
	run("blind", 2, kit.Pick(4500, 200000))
	_ = ref.DocOpts{}
}
