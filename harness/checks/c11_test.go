package checks

import (
	"bytes"
	"crypto/sha256"
	"encoding/json"
	"fmt"
	"os"
	"os/exec"
	"reflect"
	"sort"
	"strconv"
	"strings"
	"sync"
	"testing"

	"github.com/vektah/gqlparser/v2"
	"github.com/vektah/gqlparser/v2/ast"
	"github.com/vektah/gqlparser/v2/formatter"
	"github.com/vektah/gqlparser/v2/gqlerror"
	"github.com/vektah/gqlparser/v2/parser"
	"github.com/vektah/gqlparser/v2/validator"
	"pgregory.net/rapid"

	"verif/harness/gen"
	"verif/harness/kit"
)

// C11 — a loaded schema is read-only: shared across goroutines without races or drift.

// snapshot is O8: a canonical rendering of everything reachable from the schema (maps
// sorted, pointer identity encoded by first-visit index, every field incl. positions).
func snapshot(s *ast.Schema) string {
	var sb strings.Builder
	ids := map[uintptr]int{}
	var walk func(v reflect.Value)
	walk = func(v reflect.Value) {
		switch v.Kind() {
		case reflect.Ptr:
			if v.IsNil() {
				sb.WriteString("nil;")
				return
			}
			if id, ok := ids[v.Pointer()]; ok {
				fmt.Fprintf(&sb, "^%d;", id)
				return
			}
			ids[v.Pointer()] = len(ids)
			fmt.Fprintf(&sb, "&%d{", len(ids)-1)
			walk(v.Elem())
			sb.WriteString("}")
		case reflect.Interface:
			if v.IsNil() {
				sb.WriteString("nil;")
				return
			}
			walk(v.Elem())
		case reflect.Struct:
			sb.WriteString(v.Type().Name() + "{")
			for i := 0; i < v.NumField(); i++ {
				sb.WriteString(v.Type().Field(i).Name + ":")
				walk(v.Field(i))
			}
			sb.WriteString("}")
		case reflect.Slice:
			if v.IsNil() {
				sb.WriteString("nilslice;")
				return
			}
			fmt.Fprintf(&sb, "[%d,cap%d:", v.Len(), v.Cap())
			for i := 0; i < v.Len(); i++ {
				walk(v.Index(i))
			}
			sb.WriteString("]")
		case reflect.Map:
			if v.IsNil() {
				sb.WriteString("nilmap;")
				return
			}
			keys := v.MapKeys()
			sort.Slice(keys, func(i, j int) bool { return scalarString(keys[i]) < scalarString(keys[j]) })
			sb.WriteString("map{")
			for _, k := range keys {
				sb.WriteString(scalarString(k) + "=>")
				walk(v.MapIndex(k))
			}
			sb.WriteString("}")
		default:
			sb.WriteString(scalarString(v) + ";")
		}
	}
	walk(reflect.ValueOf(s))
	sum := sha256.Sum256([]byte(sb.String()))
	return fmt.Sprintf("%x/%d", sum[:8], sb.Len())
}

// scalarString renders a value of basic kind without Interface(), so that unexported fields
// (e.g. a cache somebody adds to a definition) are part of the snapshot too.
func scalarString(v reflect.Value) string {
	switch v.Kind() {
	case reflect.String:
		return strconv.Quote(v.String())
	case reflect.Bool:
		return strconv.FormatBool(v.Bool())
	case reflect.Int, reflect.Int8, reflect.Int16, reflect.Int32, reflect.Int64:
		return strconv.FormatInt(v.Int(), 10)
	case reflect.Uint, reflect.Uint8, reflect.Uint16, reflect.Uint32, reflect.Uint64, reflect.Uintptr:
		return strconv.FormatUint(v.Uint(), 10)
	case reflect.Float32, reflect.Float64:
		return strconv.FormatFloat(v.Float(), 'g', -1, 64)
	case reflect.Invalid:
		return "invalid"
	case reflect.Func, reflect.Chan, reflect.UnsafePointer:
		if v.IsNil() {
			return v.Kind().String() + "(nil)"
		}
		return v.Kind().String()
	}
	return v.Kind().String()
}

type c11Job struct {
	Kind   string      `json:"kind"` // validate coerce argmap format
	Query  string      `json:"query,omitempty"`
	Vars   interface{} `json:"vars,omitempty"`
	Config *fmtConfig  `json:"config,omitempty"`
	Want   string      `json:"-"`
}

type c11History struct {
	Schema     string   `json:"schema"`
	Jobs       []c11Job `json:"jobs"`
	Goroutines [][]int  `json:"goroutines,omitempty"` // job indices per goroutine
}

// runJob executes one call against the shared schema and returns a digest of its result.
func runJob(s *ast.Schema, j c11Job) string { return execJob(s, j).digest() }

// jobResult is what a call returned, kept as returned: digests are computed outside the
// concurrent phase, because fmt and encoding/json synchronise through pools and would order
// the goroutines for the race detector.
type jobResult struct {
	text    string        // parse error, panic
	errs    gqlerror.List // validate, invalid documents
	invalid bool
	parts   []interface{} // coerce / argmap: per operation the coerced variables (or an error), then argument maps
	out     []byte        // format
	format  bool
}

func (r jobResult) digest() string {
	switch {
	case r.text != "":
		return r.text
	case r.format:
		sum := sha256.Sum256(r.out)
		return fmt.Sprintf("%x/%d", sum[:8], len(r.out))
	case r.parts != nil:
		var parts []string
		for _, p := range r.parts {
			if e, ok := p.(error); ok {
				parts = append(parts, "err:"+e.Error())
				continue
			}
			b, _ := json.Marshal(normGo(p))
			parts = append(parts, string(b))
		}
		return strings.Join(parts, "\n")
	case r.invalid:
		return "invalid:" + errDigest(r.errs)
	}
	return errDigest(r.errs)
}

func execJob(s *ast.Schema, j c11Job) (res jobResult) {
	defer func() {
		if r := recover(); r != nil {
			res = jobResult{text: fmt.Sprintf("panic:%v", r)}
		}
	}()
	switch j.Kind {
	case "validate":
		d, err := parser.ParseQuery(&ast.Source{Name: "q.graphql", Input: j.Query})
		if err != nil {
			return jobResult{text: "parse:" + err.Error()}
		}
		return jobResult{errs: validator.Validate(s, d)}
	case "coerce", "argmap":
		d, errs := gqlparser.LoadQuery(s, j.Query)
		if len(errs) > 0 {
			return jobResult{errs: errs, invalid: true}
		}
		res.parts = []interface{}{}
		for i, op := range d.Operations {
			var raw map[string]interface{}
			if l, ok := j.Vars.([]interface{}); ok && i < len(l) {
				raw, _ = decodeGo(l[i]).(map[string]interface{})
			}
			coerced, err := validator.VariableValues(s, op, raw)
			if err != nil {
				res.parts = append(res.parts, error(err))
				continue
			}
			res.parts = append(res.parts, coerced)
			if j.Kind == "argmap" {
				var visit func(ss ast.SelectionSet)
				seen := map[string]bool{}
				visit = func(ss ast.SelectionSet) {
					for _, sel := range ss {
						switch x := sel.(type) {
						case *ast.Field:
							if x.Definition != nil {
								res.parts = append(res.parts, x.ArgumentMap(coerced))
							}
							for _, dir := range x.Directives {
								if dir.Definition != nil {
									res.parts = append(res.parts, dir.ArgumentMap(coerced))
								}
							}
							visit(x.SelectionSet)
						case *ast.InlineFragment:
							visit(x.SelectionSet)
						case *ast.FragmentSpread:
							if f := d.Fragments.ForName(x.Name); f != nil && !seen[x.Name] {
								seen[x.Name] = true
								visit(f.SelectionSet)
							}
						}
					}
				}
				visit(op.SelectionSet)
			}
		}
		return res
	case "format":
		var buf bytes.Buffer
		formatter.NewFormatter(&buf, j.Config.options()...).FormatSchema(s)
		return jobResult{out: buf.Bytes(), format: true}
	}
	return jobResult{text: "?"}
}

// genJobs draws jobs against schema text (a G6 schema) and its reference model.
func genJob(rt *rapid.T, g genVal) c11Job {
	switch rapid.IntRange(0, 6).Draw(rt, "jobkind") {
	case 6:
		// introspection documents: the same few fragment names at varying depths in every job, so
		// that state a rule keeps between calls (rather than per call) shows up
		return c11Job{Kind: "validate", Query: gen.JoinPlain(gen.QueryLexemes(gen.IntrospectionDocumentWithFragments(rt), gen.Canon))}
	case 0, 1:
		class := rapid.IntRange(0, 2).Draw(rt, "docclass")
		var q string
		switch class {
		case 2:
			q = gen.JoinPlain(gen.QueryLexemes(gen.BlindDocument(rt, g.Schema), gen.Canon))
		default:
			td := gen.TypedDocument(rt, g.Schema)
			if class == 1 {
				gen.ApplyDocFault(rt, td, g.Schema, rapid.IntRange(0, gen.NumDocFaults()-1).Draw(rt, "fault"))
			}
			lex := gen.QueryLexemes(td.Doc, gen.Canon)
			if rapid.IntRange(0, 3).Draw(rt, "misspell") == 0 {
				lex = misspell(rt, lex)
			}
			q = gen.JoinPlain(lex)
		}
		return c11Job{Kind: "validate", Query: q}
	case 2, 3, 4:
		td := gen.TypedDocument(rt, g.Schema)
		g2 := g
		g2.Typed = td
		kind := "argmap"
		if rapid.Bool().Draw(rt, "coerceonly") {
			kind = "coerce"
		}
		return c11Job{Kind: kind, Query: gen.JoinPlain(gen.QueryLexemes(td.Doc, gen.Canon)), Vars: genC15Vars(rt, g2)}
	default:
		cfg := fmtConfig{Indent: rapid.SampledFrom(fmtIndents).Draw(rt, "indent"), Comments: rapid.Bool().Draw(rt, "c"), Compacted: rapid.Bool().Draw(rt, "k"), Builtin: rapid.Bool().Draw(rt, "b"), NoDesc: rapid.Bool().Draw(rt, "n")}
		return c11Job{Kind: "format", Config: &cfg}
	}
}

// c11Eval replays a history: sequential phase with snapshot invariant, then the concurrent phase.
func c11Eval(h c11History) (viol string) {
	s, err := gqlparser.LoadSchema(&ast.Source{Name: "schema.graphql", Input: h.Schema})
	if err != nil {
		return ""
	}
	base := snapshot(s)
	want := make([]string, len(h.Jobs))
	for i, j := range h.Jobs {
		want[i] = runJob(s, j)
		if strings.HasPrefix(want[i], "panic:") {
			return "" // crashes are the subject of C02/C14/C15
		}
		if now := snapshot(s); now != base {
			return fmt.Sprintf("the schema changed during sequential call %d (%s): snapshot %s -> %s", i, j.Kind, base, now)
		}
	}
	// the same calls once more, in reverse order: what a call returns must not depend on the
	// calls made before it
	for i := len(h.Jobs) - 1; i >= 0; i-- {
		if got := runJob(s, h.Jobs[i]); got != want[i] {
			return fmt.Sprintf("job %d (%s) returns something else when it is repeated later in the history:\n first: %s\n later: %s", i, h.Jobs[i].Kind, diffAround(want[i], got), diffAround(got, want[i]))
		}
	}
	if len(h.Goroutines) == 0 {
		return ""
	}
	// burst: every goroutine validates the documents that produced no error, nothing else. Valid
	// documents make the library format no message, and formatting synchronises goroutines through
	// fmt's pool as far as the race detector is concerned, which hides unsynchronised accesses.
	var quiet []int
	for i, j := range h.Jobs {
		if j.Kind == "validate" && (want[i] == "[]" || want[i] == "null") {
			quiet = append(quiet, i)
		}
	}
	if len(quiet) > 0 {
		var bw sync.WaitGroup
		go1 := make(chan struct{})
		bad := make([]int, len(h.Goroutines))
		for gi := range h.Goroutines {
			bw.Add(1)
			bad[gi] = -1
			go func(gi int) {
				defer bw.Done()
				<-go1
				for round := 0; round < 2; round++ {
					for k := range quiet {
						ji := quiet[(k+gi)%len(quiet)]
						if res := execJob(s, h.Jobs[ji]); len(res.errs) != 0 || res.text != "" {
							bad[gi] = ji
						}
					}
				}
			}(gi)
		}
		close(go1)
		bw.Wait()
		for gi, ji := range bad {
			if ji >= 0 {
				return fmt.Sprintf("goroutine %d, job %d (validate): a document that validates without errors alone does not when validated concurrently", gi, ji)
			}
		}
	}
	var wg sync.WaitGroup
	start := make(chan struct{})
	got := make([][]jobResult, len(h.Goroutines))
	for gi, idxs := range h.Goroutines {
		wg.Add(1)
		got[gi] = make([]jobResult, len(idxs))
		go func(out []jobResult, idxs []int) {
			defer wg.Done()
			<-start
			// library calls only: results are digested after the goroutines have finished
			for k, ji := range idxs {
				out[k] = execJob(s, h.Jobs[ji])
			}
		}(got[gi], idxs)
	}
	close(start)
	wg.Wait()
	for gi, idxs := range h.Goroutines {
		for k, ji := range idxs {
			if d := got[gi][k].digest(); d != want[ji] {
				return fmt.Sprintf("goroutine %d, job %d (%s): the concurrent call returned something else than the same call run alone:\n alone: %s\n concurrent: %s", gi, ji, h.Jobs[ji].Kind, diffAround(want[ji], d), diffAround(d, want[ji]))
			}
		}
	}
	if now := snapshot(s); now != base {
		return fmt.Sprintf("the schema changed during the concurrent phase: snapshot %s -> %s", base, now)
	}
	return ""
}

func TestC11(t *testing.T) {
	r := kit.New(t, "C11")
	defer r.Finish()
	r.SetRule("histories on one loaded G6 schema: (a) rapid state machine over the actions validate-valid, validate-invalid (faulty / type-blind / misspelt), validate-introspection (fragments on __Type at several depths), coerce variables, resolve arguments of every field and directive, format the schema with random options, with a deep snapshot of the schema graph (every field, pointer identity, slice capacities) compared after every step, and every call repeated at the end of the history in reverse order (same result required); " +
		"(b) the same job mix precomputed sequentially, then issued by 2-32 goroutines started together on the shared schema, each with its own documents (two introspection documents with fragments in two different goroutines in every history); every result must equal the sequential one and the snapshot must be unchanged; the binary is built with -race and halts on the first report; (c) a sample of the calls (the introspection documents and one other per history) repeated in this process after all histories and as the only call of a freshly started process: same result required. " +
		"non-trivial = history with an invalid document and a coercion, or >= 2 goroutines; distinct by history")
	r.Assume("schedules are those the Go scheduler produced; the race detector flags unsynchronised accesses by happens-before analysis even when they did not overlap in time")
	replay := func(raw json.RawMessage) string {
		var h c11History
		if err := json.Unmarshal(raw, &h); err != nil {
			return "bad replay case: " + err.Error()
		}
		for i := 0; i < 20; i++ {
			if v := c11Eval(h); v != "" {
				return v
			}
		}
		return ""
	}
	kit.RegisterReplayer("C11", "sequential", replay)
	kit.RegisterReplayer("C11", "concurrent", replay)
	if r.ReplayIfRequested() {
		return
	}
	// (a) state machine with the snapshot as invariant
	r.Rapid("sequential", kit.Pick(40, 1500), func(rt *rapid.T) {
		g, ok := genValidationCase(rt, 0)
		if !ok {
			rt.Skip("no schema")
		}
		s, err := gqlparser.LoadSchema(&ast.Source{Name: "schema.graphql", Input: g.Case.Schema})
		if err != nil {
			rt.Skip("schema does not load")
		}
		base := snapshot(s)
		h := c11History{Schema: g.Case.Schema}
		var first []string
		step := func(kind func(int) bool) func(*rapid.T) {
			return func(rt *rapid.T) {
				j := genJob(rt, g)
				h.Jobs = append(h.Jobs, j)
				r.Begin("sequential", func() interface{} { return h })
				first = append(first, runJob(s, j))
				r.End()
				r.Class("action:" + j.Kind)
			}
		}
		rt.Repeat(map[string]func(*rapid.T){
			"call": step(nil),
			"": func(rt *rapid.T) {
				if now := snapshot(s); now != base {
					r.Failf(rt, "sequential", h, "the schema changed during call %d (%s): snapshot %s -> %s", len(h.Jobs)-1, h.Jobs[len(h.Jobs)-1].Kind, base, now)
				}
			},
		})
		// history independence: every call repeated at the end, in reverse order, returns what it returned first
		for i := len(h.Jobs) - 1; i >= 0; i-- {
			if strings.HasPrefix(first[i], "panic:") {
				continue
			}
			r.Begin("sequential", func() interface{} { return h })
			got := runJob(s, h.Jobs[i])
			r.End()
			if got != first[i] {
				r.Failf(rt, "sequential", h, "call %d (%s) returns something else when it is repeated at the end of the history:\n first: %s\n later: %s", i, h.Jobs[i].Kind, diffAround(first[i], got), diffAround(got, first[i]))
			}
		}
		key, _ := json.Marshal(h)
		r.Case(len(h.Jobs) >= 2, string(key))
	})
	var alone []c11Alone
	// (b) concurrent histories
	r.Rapid("concurrent", kit.Pick(60, 2500), func(rt *rapid.T) {
		g, ok := genValidationCase(rt, 0)
		if !ok {
			rt.Skip("no schema")
		}
		h := c11History{Schema: g.Case.Schema}
		njobs := rapid.IntRange(4, 24).Draw(rt, "njobs")
		for i := 0; i < njobs; i++ {
			h.Jobs = append(h.Jobs, genJob(rt, g))
		}
		// two introspection documents with fragments in every history (placed in two different
		// goroutines below): the rule that follows fragments below __schema / __type keeps search state
		for k := 0; k < 2; k++ {
			h.Jobs = append(h.Jobs, c11Job{Kind: "validate", Query: gen.JoinPlain(gen.QueryLexemes(gen.IntrospectionDocumentWithFragments(rt), gen.Canon))})
		}
		ng := rapid.SampledFrom([]int{2, 2, 3, 4, 8, 8, 16, 32}).Draw(rt, "goroutines")
		for gi := 0; gi < ng; gi++ {
			n := rapid.IntRange(1, 12).Draw(rt, "len")
			var idxs []int
			for k := 0; k < n; k++ {
				idxs = append(idxs, rapid.IntRange(0, njobs-1).Draw(rt, "job"))
			}
			h.Goroutines = append(h.Goroutines, idxs)
		}
		for k := 0; k < 2; k++ {
			gi := (rapid.IntRange(0, ng-1).Draw(rt, "introg") + k) % ng
			if k == 1 && ng > 1 && gi == 0 {
				gi = 1
			}
			at := rapid.IntRange(0, len(h.Goroutines[gi])).Draw(rt, "introat")
			l := append([]int{}, h.Goroutines[gi][:at]...)
			l = append(l, njobs+k)
			h.Goroutines[gi] = append(l, h.Goroutines[gi][at:]...)
		}
		writeInflight("C11", "concurrent", h)
		if len(alone) < kit.Pick(48, 960) {
			// the two introspection jobs and one drawn job: re-run later, each alone in a fresh process
			for _, ji := range []int{njobs, njobs + 1, rapid.IntRange(0, njobs-1).Draw(rt, "alonejob")} {
				alone = append(alone, c11Alone{Schema: h.Schema, Job: h.Jobs[ji]})
			}
		}
		r.Begin("concurrent", func() interface{} { return h })
		v := c11Eval(h)
		r.End()
		clearInflight()
		key, _ := json.Marshal(h)
		r.Case(true, string(key))
		r.Class(fmt.Sprintf("goroutines=%d", ng))
		for _, j := range h.Jobs {
			r.Class("job:" + j.Kind)
		}
		if r.WantSample("concurrent") {
			r.Sample("concurrent", map[string]interface{}{"goroutines": h.Goroutines, "jobs": len(h.Jobs), "first_job": h.Jobs[0]})
		}
		if v != "" {
			r.Failf(rt, "concurrent", h, "%s", v)
		}
	})
	if t.Failed() || len(alone) == 0 {
		return
	}
	// (c) "what the same call returns when run alone": each kept call once more in this process, after
	// everything above, and once as the only call of a freshly started process
	kit.RegisterReplayer("C11", "alone", func(raw json.RawMessage) string { return "" })
	dir, err := os.MkdirTemp(os.Getenv("VERIF_TMP"), "c11")
	if err != nil {
		r.HarnessErrorf("cannot create temp dir: %v", err)
		return
	}
	defer os.RemoveAll(dir)
	type outcome struct {
		here, fresh string
		err         error
	}
	res := make([]outcome, len(alone))
	for i, a := range alone {
		s, err := gqlparser.LoadSchema(&ast.Source{Name: "schema.graphql", Input: a.Schema})
		if err != nil {
			continue
		}
		// through JSON like the child, so that both sides decode the same bytes
		var same c11Alone
		b, _ := json.Marshal(a)
		if json.Unmarshal(b, &same) != nil {
			continue
		}
		res[i].here = fmt.Sprintf("%x", sha256.Sum256([]byte(runJob(s, same.Job))))
	}
	sem := make(chan struct{}, 12)
	var wg sync.WaitGroup
	for i := range alone {
		if res[i].here == "" {
			continue
		}
		wg.Add(1)
		go func(i int) {
			defer wg.Done()
			sem <- struct{}{}
			defer func() { <-sem }()
			file := fmt.Sprintf("%s/case%d.json", dir, i)
			b, _ := json.Marshal(alone[i])
			if err := os.WriteFile(file, b, 0o644); err != nil {
				res[i].err = err
				return
			}
			cmd := exec.Command(os.Args[0], "-test.run", "^TestC11Child$", "-test.v")
			cmd.Env = append(os.Environ(), "VERIF_C11_CASE="+file, "VERIF_OUT=", "VERIF_INFLIGHT=")
			out, err := cmd.Output()
			if err != nil {
				res[i].err = fmt.Errorf("%v: %s", err, cut(string(out), 0, 300))
				return
			}
			for _, line := range strings.Split(string(out), "\n") {
				var d string
				if _, err := fmt.Sscanf(line, "C11DIGEST %s", &d); err == nil {
					res[i].fresh = d
				}
			}
		}(i)
	}
	wg.Wait()
	for i, o := range res {
		if o.here == "" {
			continue
		}
		if o.err != nil || o.fresh == "" {
			r.HarnessErrorf("child process for an alone call failed: %v", o.err)
			return
		}
		r.Class("alone-in-fresh-process")
		if o.fresh != o.here {
			r.Violation("alone", alone[i], "the call (%s) returns something else as the only call of a fresh process than in this process after the histories above", alone[i].Job.Kind)
			return
		}
	}
}

type c11Alone struct {
	Schema string `json:"schema"`
	Job    c11Job `json:"job"`
}

// TestC11Child is the re-executed child: one call, alone, in a fresh process.
func TestC11Child(t *testing.T) {
	path := os.Getenv("VERIF_C11_CASE")
	if path == "" {
		t.Skip("only runs as a child of TestC11")
	}
	b, err := os.ReadFile(path)
	if err != nil {
		t.Fatal(err)
	}
	var a c11Alone
	if err := json.Unmarshal(b, &a); err != nil {
		t.Fatal(err)
	}
	s, err := gqlparser.LoadSchema(&ast.Source{Name: "schema.graphql", Input: a.Schema})
	if err != nil {
		t.Fatal(err)
	}
	fmt.Printf("C11DIGEST %x\n", sha256.Sum256([]byte(runJob(s, a.Job))))
}
