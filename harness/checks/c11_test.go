package checks

import (
	"bytes"
	"crypto/sha256"
	"encoding/json"
	"fmt"
	"reflect"
	"sort"
	"strconv"
	"strings"
	"sync"
	"testing"

	"github.com/vektah/gqlparser/v2"
	"github.com/vektah/gqlparser/v2/ast"
	"github.com/vektah/gqlparser/v2/formatter"
	"github.com/vektah/gqlparser/v2/parser"
	"github.com/vektah/gqlparser/v2/validator"
	"pgregory.net/rapid"

	"verif/harness/gen"
	"verif/harness/kit"
)

// C11 — a loaded schema is read-only: shared across goroutines without races or drift.

// snapshot is O8: a canonical rendering of everything reachable from the schema (maps
// sorted, pointer identity encoded by first-visit index, every field incl. positions).
func snapshot(s *ast.Schema) string {
	var sb strings.Builder
	ids := map[uintptr]int{}
	var walk func(v reflect.Value)
	walk = func(v reflect.Value) {
		switch v.Kind() {
		case reflect.Ptr:
			if v.IsNil() {
				sb.WriteString("nil;")
				return
			}
			if id, ok := ids[v.Pointer()]; ok {
				fmt.Fprintf(&sb, "^%d;", id)
				return
			}
			ids[v.Pointer()] = len(ids)
			fmt.Fprintf(&sb, "&%d{", len(ids)-1)
			walk(v.Elem())
			sb.WriteString("}")
		case reflect.Interface:
			if v.IsNil() {
				sb.WriteString("nil;")
				return
			}
			walk(v.Elem())
		case reflect.Struct:
			sb.WriteString(v.Type().Name() + "{")
			for i := 0; i < v.NumField(); i++ {
				sb.WriteString(v.Type().Field(i).Name + ":")
				walk(v.Field(i))
			}
			sb.WriteString("}")
		case reflect.Slice:
			if v.IsNil() {
				sb.WriteString("nilslice;")
				return
			}
			fmt.Fprintf(&sb, "[%d,cap%d:", v.Len(), v.Cap())
			for i := 0; i < v.Len(); i++ {
				walk(v.Index(i))
			}
			sb.WriteString("]")
		case reflect.Map:
			if v.IsNil() {
				sb.WriteString("nilmap;")
				return
			}
			keys := v.MapKeys()
			sort.Slice(keys, func(i, j int) bool { return scalarString(keys[i]) < scalarString(keys[j]) })
			sb.WriteString("map{")
			for _, k := range keys {
				sb.WriteString(scalarString(k) + "=>")
				walk(v.MapIndex(k))
			}
			sb.WriteString("}")
		default:
			sb.WriteString(scalarString(v) + ";")
		}
	}
	walk(reflect.ValueOf(s))
	sum := sha256.Sum256([]byte(sb.String()))
	return fmt.Sprintf("%x/%d", sum[:8], sb.Len())
}

// scalarString renders a value of basic kind without Interface(), so that unexported fields
// (e.g. a cache somebody adds to a definition) are part of the snapshot too.
func scalarString(v reflect.Value) string {
	switch v.Kind() {
	case reflect.String:
		return strconv.Quote(v.String())
	case reflect.Bool:
		return strconv.FormatBool(v.Bool())
	case reflect.Int, reflect.Int8, reflect.Int16, reflect.Int32, reflect.Int64:
		return strconv.FormatInt(v.Int(), 10)
	case reflect.Uint, reflect.Uint8, reflect.Uint16, reflect.Uint32, reflect.Uint64, reflect.Uintptr:
		return strconv.FormatUint(v.Uint(), 10)
	case reflect.Float32, reflect.Float64:
		return strconv.FormatFloat(v.Float(), 'g', -1, 64)
	case reflect.Invalid:
		return "invalid"
	case reflect.Func, reflect.Chan, reflect.UnsafePointer:
		if v.IsNil() {
			return v.Kind().String() + "(nil)"
		}
		return v.Kind().String()
	}
	return v.Kind().String()
}

type c11Job struct {
	Kind   string      `json:"kind"` // validate coerce argmap format
	Query  string      `json:"query,omitempty"`
	Vars   interface{} `json:"vars,omitempty"`
	Config *fmtConfig  `json:"config,omitempty"`
	Want   string      `json:"-"`
}

type c11History struct {
	Schema     string   `json:"schema"`
	Jobs       []c11Job `json:"jobs"`
	Goroutines [][]int  `json:"goroutines,omitempty"` // job indices per goroutine
}

// runJob executes one call against the shared schema and returns a digest of its result.
func runJob(s *ast.Schema, j c11Job) (digest string) {
	defer func() {
		if r := recover(); r != nil {
			digest = fmt.Sprintf("panic:%v", r)
		}
	}()
	switch j.Kind {
	case "validate":
		d, err := parser.ParseQuery(&ast.Source{Name: "q.graphql", Input: j.Query})
		if err != nil {
			return "parse:" + err.Error()
		}
		return errDigest(validator.Validate(s, d))
	case "coerce", "argmap":
		d, errs := gqlparser.LoadQuery(s, j.Query)
		if len(errs) > 0 {
			return "invalid:" + errDigest(errs)
		}
		var parts []string
		for i, op := range d.Operations {
			var raw map[string]interface{}
			if l, ok := j.Vars.([]interface{}); ok && i < len(l) {
				raw, _ = decodeGo(l[i]).(map[string]interface{})
			}
			coerced, err := validator.VariableValues(s, op, raw)
			if err != nil {
				parts = append(parts, "err:"+err.Error())
				continue
			}
			b, _ := json.Marshal(normGo(coerced))
			parts = append(parts, string(b))
			if j.Kind == "argmap" {
				var visit func(ss ast.SelectionSet)
				seen := map[string]bool{}
				visit = func(ss ast.SelectionSet) {
					for _, sel := range ss {
						switch x := sel.(type) {
						case *ast.Field:
							if x.Definition != nil {
								b, _ := json.Marshal(normGo(x.ArgumentMap(coerced)))
								parts = append(parts, string(b))
							}
							for _, dir := range x.Directives {
								if dir.Definition != nil {
									b, _ := json.Marshal(normGo(dir.ArgumentMap(coerced)))
									parts = append(parts, string(b))
								}
							}
							visit(x.SelectionSet)
						case *ast.InlineFragment:
							visit(x.SelectionSet)
						case *ast.FragmentSpread:
							if f := d.Fragments.ForName(x.Name); f != nil && !seen[x.Name] {
								seen[x.Name] = true
								visit(f.SelectionSet)
							}
						}
					}
				}
				visit(op.SelectionSet)
			}
		}
		return strings.Join(parts, "\n")
	case "format":
		var buf bytes.Buffer
		formatter.NewFormatter(&buf, j.Config.options()...).FormatSchema(s)
		sum := sha256.Sum256(buf.Bytes())
		return fmt.Sprintf("%x/%d", sum[:8], buf.Len())
	}
	return "?"
}

// genJobs draws jobs against schema text (a G6 schema) and its reference model.
func genJob(rt *rapid.T, g genVal) c11Job {
	switch rapid.IntRange(0, 5).Draw(rt, "jobkind") {
	case 0, 1:
		class := rapid.IntRange(0, 2).Draw(rt, "docclass")
		var q string
		switch class {
		case 2:
			q = gen.JoinPlain(gen.QueryLexemes(gen.BlindDocument(rt, g.Schema), gen.Canon))
		default:
			td := gen.TypedDocument(rt, g.Schema)
			if class == 1 {
				gen.ApplyDocFault(rt, td, g.Schema, rapid.IntRange(0, gen.NumDocFaults()-1).Draw(rt, "fault"))
			}
			lex := gen.QueryLexemes(td.Doc, gen.Canon)
			if rapid.IntRange(0, 3).Draw(rt, "misspell") == 0 {
				lex = misspell(rt, lex)
			}
			q = gen.JoinPlain(lex)
		}
		return c11Job{Kind: "validate", Query: q}
	case 2, 3, 4:
		td := gen.TypedDocument(rt, g.Schema)
		g2 := g
		g2.Typed = td
		kind := "argmap"
		if rapid.Bool().Draw(rt, "coerceonly") {
			kind = "coerce"
		}
		return c11Job{Kind: kind, Query: gen.JoinPlain(gen.QueryLexemes(td.Doc, gen.Canon)), Vars: genC15Vars(rt, g2)}
	default:
		cfg := fmtConfig{Indent: rapid.SampledFrom(fmtIndents).Draw(rt, "indent"), Comments: rapid.Bool().Draw(rt, "c"), Compacted: rapid.Bool().Draw(rt, "k"), Builtin: rapid.Bool().Draw(rt, "b"), NoDesc: rapid.Bool().Draw(rt, "n")}
		return c11Job{Kind: "format", Config: &cfg}
	}
}

// c11Eval replays a history: sequential phase with snapshot invariant, then the concurrent phase.
func c11Eval(h c11History) (viol string) {
	s, err := gqlparser.LoadSchema(&ast.Source{Name: "schema.graphql", Input: h.Schema})
	if err != nil {
		return ""
	}
	base := snapshot(s)
	want := make([]string, len(h.Jobs))
	for i, j := range h.Jobs {
		want[i] = runJob(s, j)
		if strings.HasPrefix(want[i], "panic:") {
			return "" // crashes are the subject of C02/C14/C15
		}
		if now := snapshot(s); now != base {
			return fmt.Sprintf("the schema changed during sequential call %d (%s): snapshot %s -> %s", i, j.Kind, base, now)
		}
	}
	if len(h.Goroutines) == 0 {
		return ""
	}
	var wg sync.WaitGroup
	start := make(chan struct{})
	errs := make([]string, len(h.Goroutines))
	for gi, idxs := range h.Goroutines {
		wg.Add(1)
		go func(gi int, idxs []int) {
			defer wg.Done()
			<-start
			for _, ji := range idxs {
				got := runJob(s, h.Jobs[ji])
				if got != want[ji] && errs[gi] == "" {
					errs[gi] = fmt.Sprintf("goroutine %d, job %d (%s): the concurrent call returned something else than the same call run alone:\n alone: %s\n concurrent: %s", gi, ji, h.Jobs[ji].Kind, diffAround(want[ji], got), diffAround(got, want[ji]))
				}
			}
		}(gi, idxs)
	}
	close(start)
	wg.Wait()
	for _, e := range errs {
		if e != "" {
			return e
		}
	}
	if now := snapshot(s); now != base {
		return fmt.Sprintf("the schema changed during the concurrent phase: snapshot %s -> %s", base, now)
	}
	return ""
}

func TestC11(t *testing.T) {
	r := kit.New(t, "C11")
	defer r.Finish()
	r.SetRule("histories on one loaded G6 schema: (a) rapid state machine over the actions validate-valid, validate-invalid (faulty / type-blind / misspelt), coerce variables, resolve arguments of every field and directive, format the schema with random options, with a deep snapshot of the schema graph (every field, pointer identity, slice capacities) compared after every step; " +
		"(b) the same job mix precomputed sequentially, then issued by 2-32 goroutines started together on the shared schema, each with its own documents; every result must equal the sequential one and the snapshot must be unchanged; the binary is built with -race and halts on the first report. " +
		"non-trivial = history with an invalid document and a coercion, or >= 2 goroutines; distinct by history")
	r.Assume("schedules are those the Go scheduler produced; the race detector flags unsynchronised accesses by happens-before analysis even when they did not overlap in time")
	replay := func(raw json.RawMessage) string {
		var h c11History
		if err := json.Unmarshal(raw, &h); err != nil {
			return "bad replay case: " + err.Error()
		}
		for i := 0; i < 20; i++ {
			if v := c11Eval(h); v != "" {
				return v
			}
		}
		return ""
	}
	kit.RegisterReplayer("C11", "sequential", replay)
	kit.RegisterReplayer("C11", "concurrent", replay)
	if r.ReplayIfRequested() {
		return
	}
	// (a) state machine with the snapshot as invariant
	r.Rapid("sequential", kit.Pick(40, 1500), func(rt *rapid.T) {
		g, ok := genValidationCase(rt, 0)
		if !ok {
			rt.Skip("no schema")
		}
		s, err := gqlparser.LoadSchema(&ast.Source{Name: "schema.graphql", Input: g.Case.Schema})
		if err != nil {
			rt.Skip("schema does not load")
		}
		base := snapshot(s)
		h := c11History{Schema: g.Case.Schema}
		step := func(kind func(int) bool) func(*rapid.T) {
			return func(rt *rapid.T) {
				j := genJob(rt, g)
				h.Jobs = append(h.Jobs, j)
				r.Begin("sequential", func() interface{} { return h })
				runJob(s, j)
				r.End()
				r.Class("action:" + j.Kind)
			}
		}
		rt.Repeat(map[string]func(*rapid.T){
			"call": step(nil),
			"": func(rt *rapid.T) {
				if now := snapshot(s); now != base {
					r.Failf(rt, "sequential", h, "the schema changed during call %d (%s): snapshot %s -> %s", len(h.Jobs)-1, h.Jobs[len(h.Jobs)-1].Kind, base, now)
				}
			},
		})
		key, _ := json.Marshal(h)
		r.Case(len(h.Jobs) >= 2, string(key))
	})
	// (b) concurrent histories
	r.Rapid("concurrent", kit.Pick(60, 2500), func(rt *rapid.T) {
		g, ok := genValidationCase(rt, 0)
		if !ok {
			rt.Skip("no schema")
		}
		h := c11History{Schema: g.Case.Schema}
		njobs := rapid.IntRange(4, 24).Draw(rt, "njobs")
		for i := 0; i < njobs; i++ {
			h.Jobs = append(h.Jobs, genJob(rt, g))
		}
		ng := rapid.SampledFrom([]int{2, 2, 3, 4, 8, 8, 16, 32}).Draw(rt, "goroutines")
		for gi := 0; gi < ng; gi++ {
			n := rapid.IntRange(1, 12).Draw(rt, "len")
			var idxs []int
			for k := 0; k < n; k++ {
				idxs = append(idxs, rapid.IntRange(0, njobs-1).Draw(rt, "job"))
			}
			h.Goroutines = append(h.Goroutines, idxs)
		}
		writeInflight("C11", "concurrent", h)
		r.Begin("concurrent", func() interface{} { return h })
		v := c11Eval(h)
		r.End()
		clearInflight()
		key, _ := json.Marshal(h)
		r.Case(true, string(key))
		r.Class(fmt.Sprintf("goroutines=%d", ng))
		for _, j := range h.Jobs {
			r.Class("job:" + j.Kind)
		}
		if r.WantSample("concurrent") {
			r.Sample("concurrent", map[string]interface{}{"goroutines": h.Goroutines, "jobs": len(h.Jobs), "first_job": h.Jobs[0]})
		}
		if v != "" {
			r.Failf(rt, "concurrent", h, "%s", v)
		}
	})
}
