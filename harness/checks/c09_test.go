package checks

import (
	"encoding/json"
	"fmt"
	"strconv"
	"strings"
	"testing"

	"github.com/vektah/gqlparser/v2"
	"github.com/vektah/gqlparser/v2/ast"
	"github.com/vektah/gqlparser/v2/parser"
	"github.com/vektah/gqlparser/v2/validator"
	"pgregory.net/rapid"

	"verif/harness/kit"
)

// C09 — validated documents are completely and correctly linked to schema definitions.

type linker struct {
	s     *ast.Schema
	d     *ast.QueryDocument
	links int
	// fragment name -> operations (indices) that reach it
	reach map[string][]*ast.OperationDefinition
	ops   []*ast.OperationDefinition // operations in whose scope the current node lies
}

func typeStr(t *ast.Type) string {
	if t == nil {
		return "<nil>"
	}
	return t.String()
}

func isCustomScalarDef(d *ast.Definition) bool {
	if d == nil || d.Kind != ast.Scalar {
		return false
	}
	switch d.Name {
	case "Int", "Float", "String", "Boolean", "ID":
		return false
	}
	return true
}

// value checks ExpectedType/Definition of v (expected type want) and of everything nested in it.
func (l *linker) value(v *ast.Value, want *ast.Type, where string) string {
	if v == nil {
		return ""
	}
	l.links++
	// (the declared type is read from a snapshot taken when the schema was loaded: validation must
	// not have changed what the schema says, and if it did the links are wrong, not "consistent")
	if v.ExpectedType == nil || typeStr(v.ExpectedType) != declaredType(want) {
		return fmt.Sprintf("%s: value %s has ExpectedType %s, declared type at this position is %s", where, v.String(), typeStr(v.ExpectedType), declaredType(want))
	}
	wantDef := l.s.Types[want.Name()]
	if v.Definition != wantDef || wantDef == nil {
		return fmt.Sprintf("%s: value %s has Definition %s, want the schema's definition of %s", where, v.String(), defName(v.Definition), want.Name())
	}
	if v.Kind == ast.Variable {
		return l.variableUse(v, where)
	}
	if isCustomScalarDef(wantDef) {
		return l.variablesInside(v, where) // contents of custom scalar literals are not typed
	}
	switch v.Kind {
	case ast.ListValue:
		if want.Elem == nil {
			return ""
		}
		for i, c := range v.Children {
			if m := l.value(c.Value, want.Elem, fmt.Sprintf("%s[%d]", where, i)); m != "" {
				return m
			}
		}
	case ast.ObjectValue:
		if wantDef.Kind != ast.InputObject {
			return ""
		}
		for _, c := range v.Children {
			fd := wantDef.Fields.ForName(c.Name)
			if fd == nil {
				continue
			}
			if m := l.value(c.Value, fd.Type, where+"."+c.Name); m != "" {
				return m
			}
		}
	}
	return ""
}

func (l *linker) variablesInside(v *ast.Value, where string) string {
	if v.Kind == ast.Variable {
		return l.variableUse(v, where)
	}
	for _, c := range v.Children {
		if m := l.variablesInside(c.Value, where); m != "" {
			return m
		}
	}
	return ""
}

func (l *linker) variableUse(v *ast.Value, where string) string {
	l.links++
	if v.VariableDefinition == nil {
		return fmt.Sprintf("%s: use of $%s carries no variable definition", where, v.Raw)
	}
	if v.VariableDefinition.Variable != v.Raw {
		return fmt.Sprintf("%s: use of $%s is linked to the definition of $%s", where, v.Raw, v.VariableDefinition.Variable)
	}
	for _, op := range l.ops {
		if op.VariableDefinitions.ForName(v.Raw) == v.VariableDefinition {
			return ""
		}
	}
	return fmt.Sprintf("%s: use of $%s is linked to a definition that belongs to no operation reaching it", where, v.Raw)
}

func defName(d *ast.Definition) string {
	if d == nil {
		return "<nil>"
	}
	return d.Name
}

func (l *linker) arguments(args ast.ArgumentList, defs ast.ArgumentDefinitionList, where string) string {
	for _, a := range args {
		ad := defs.ForName(a.Name)
		if ad == nil {
			return fmt.Sprintf("%s: argument %s has no definition in a validated document", where, a.Name)
		}
		if m := l.value(a.Value, ad.Type, where+"("+a.Name+")"); m != "" {
			return m
		}
	}
	return ""
}

func (l *linker) directives(ds ast.DirectiveList, loc ast.DirectiveLocation, where string) string {
	for _, d := range ds {
		l.links++
		want := l.s.Directives[d.Name]
		if d.Definition == nil || d.Definition != want {
			return fmt.Sprintf("%s: directive @%s is not linked to its definition", where, d.Name)
		}
		if d.Location != loc {
			return fmt.Sprintf("%s: directive @%s has location %q, written at %s", where, d.Name, d.Location, loc)
		}
		if m := l.arguments(d.Arguments, want.Arguments, where+"@"+d.Name); m != "" {
			return m
		}
	}
	return ""
}

func (l *linker) selections(ss ast.SelectionSet, parent *ast.Definition, where string) string {
	for _, sel := range ss {
		switch s := sel.(type) {
		case *ast.Field:
			w := where + "/" + s.Alias
			l.links += 2
			if s.ObjectDefinition != parent || parent == nil {
				return fmt.Sprintf("%s: field %s has ObjectDefinition %s, it is selected on %s", w, s.Name, defName(s.ObjectDefinition), defName(parent))
			}
			if s.Definition == nil {
				return fmt.Sprintf("%s: field %s carries no definition", w, s.Name)
			}
			if s.Name == "__typename" {
				if s.Definition.Name != "__typename" || s.Definition.Type == nil || s.Definition.Type.Name() != "String" {
					return fmt.Sprintf("%s: __typename is linked to %s: %s", w, s.Definition.Name, typeStr(s.Definition.Type))
				}
			} else if want := parent.Fields.ForName(s.Name); s.Definition != want {
				return fmt.Sprintf("%s: field %s is linked to a definition that is not %s.%s of the schema", w, s.Name, parent.Name, s.Name)
			}
			if m := l.arguments(s.Arguments, s.Definition.Arguments, w); m != "" {
				return m
			}
			if m := l.directives(s.Directives, ast.LocationField, w); m != "" {
				return m
			}
			if len(s.SelectionSet) > 0 {
				if m := l.selections(s.SelectionSet, l.s.Types[s.Definition.Type.Name()], w); m != "" {
					return m
				}
			}
		case *ast.FragmentSpread:
			w := where + "/..." + s.Name
			l.links += 2
			if s.Definition == nil || s.Definition != l.d.Fragments.ForName(s.Name) {
				return fmt.Sprintf("%s: spread is not linked to the fragment definition of the document", w)
			}
			if s.ObjectDefinition != parent {
				return fmt.Sprintf("%s: spread has ObjectDefinition %s, it is written within %s", w, defName(s.ObjectDefinition), defName(parent))
			}
			if m := l.directives(s.Directives, ast.LocationFragmentSpread, w); m != "" {
				return m
			}
		case *ast.InlineFragment:
			w := where + "/...on " + s.TypeCondition
			l.links++
			if s.ObjectDefinition != parent {
				return fmt.Sprintf("%s: inline fragment has ObjectDefinition %s, it is written within %s", w, defName(s.ObjectDefinition), defName(parent))
			}
			next := parent
			if s.TypeCondition != "" {
				next = l.s.Types[s.TypeCondition]
			}
			if m := l.directives(s.Directives, ast.LocationInlineFragment, w); m != "" {
				return m
			}
			if m := l.selections(s.SelectionSet, next, w); m != "" {
				return m
			}
		}
	}
	return ""
}

func spreadsOf(ss ast.SelectionSet, out *[]string) {
	for _, sel := range ss {
		switch s := sel.(type) {
		case *ast.Field:
			spreadsOf(s.SelectionSet, out)
		case *ast.InlineFragment:
			spreadsOf(s.SelectionSet, out)
		case *ast.FragmentSpread:
			*out = append(*out, s.Name)
		}
	}
}

func checkLinks(s *ast.Schema, d *ast.QueryDocument) (string, int) {
	l := &linker{s: s, d: d, reach: map[string][]*ast.OperationDefinition{}}
	for _, op := range d.Operations {
		seen := map[string]bool{}
		var visit func(ss ast.SelectionSet)
		visit = func(ss ast.SelectionSet) {
			var names []string
			spreadsOf(ss, &names)
			for _, n := range names {
				if !seen[n] {
					seen[n] = true
					l.reach[n] = append(l.reach[n], op)
					if f := d.Fragments.ForName(n); f != nil {
						visit(f.SelectionSet)
					}
				}
			}
		}
		visit(op.SelectionSet)
	}
	for i, op := range d.Operations {
		w := fmt.Sprintf("operation[%d]", i)
		l.ops = []*ast.OperationDefinition{op}
		var root *ast.Definition
		loc := ast.LocationQuery
		switch op.Operation {
		case ast.Query:
			root = s.Query
		case ast.Mutation:
			root, loc = s.Mutation, ast.LocationMutation
		case ast.Subscription:
			root, loc = s.Subscription, ast.LocationSubscription
		}
		for _, v := range op.VariableDefinitions {
			l.links++
			if want := s.Types[v.Type.Name()]; v.Definition == nil || v.Definition != want {
				return fmt.Sprintf("%s: variable $%s is not linked to the definition of %s", w, v.Variable, v.Type.Name()), l.links
			}
			if v.DefaultValue != nil {
				if m := l.value(v.DefaultValue, v.Type, w+" default of $"+v.Variable); m != "" {
					return m, l.links
				}
			}
			if m := l.directives(v.Directives, ast.LocationVariableDefinition, w+" $"+v.Variable); m != "" {
				return m, l.links
			}
		}
		if m := l.directives(op.Directives, loc, w); m != "" {
			return m, l.links
		}
		if m := l.selections(op.SelectionSet, root, w); m != "" {
			return m, l.links
		}
	}
	for _, f := range d.Fragments {
		w := "fragment " + f.Name
		l.ops = l.reach[f.Name]
		l.links++
		want := s.Types[f.TypeCondition]
		if f.Definition == nil || f.Definition != want {
			return fmt.Sprintf("%s: not linked to the definition of its type condition %s", w, f.TypeCondition), l.links
		}
		if m := l.directives(f.Directives, ast.LocationFragmentDefinition, w); m != "" {
			return m, l.links
		}
		if m := l.selections(f.SelectionSet, want, w); m != "" {
			return m, l.links
		}
	}
	return "", l.links
}

// c09Case: a (schema, document) pair and how it is validated: "" = LoadQuery (default rules),
// "walk" = validator.Walk with no observers, otherwise a comma-separated list of indices into
// allRules (validator.Validate with exactly these rules). Linking is the walker's job and does
// not depend on which rules listen.
type c09Case struct {
	valCase
	Mode string `json:"mode,omitempty"`
}

func c09Eval(c c09Case) (viol string, links int, validated bool) {
	var doc *ast.QueryDocument
	var schema *ast.Schema
	if p := kit.Safely(func() {
		s, err := libLoadSchema(c.Schema)
		if err != nil {
			return
		}
		schema = s
		d, errs := gqlparser.LoadQuery(s, c.Query)
		if len(errs) != 0 {
			return
		}
		if c.Mode == "" {
			doc = d
			return
		}
		// the document passes the full rule set; validate a fresh parse the other way
		d2, perr := parser.ParseQuery(&ast.Source{Input: c.Query})
		if perr != nil {
			return
		}
		if c.Mode == "walk" {
			validator.Walk(s, d2, &validator.Events{})
			doc = d2
			return
		}
		var rs []validator.Rule
		for _, f := range strings.Split(c.Mode, ",") {
			if i, err := strconv.Atoi(f); err == nil && i >= 0 && i < len(allRules) {
				rs = append(rs, allRules[i])
			}
		}
		if len(rs) == 0 {
			return
		}
		if errs := validator.Validate(s, d2, rs...); len(errs) == 0 {
			doc = d2
		}
	}); p != nil {
		return "", 0, false // crashes are C02's business
	}
	if doc == nil {
		return "", 0, false
	}
	v, n := checkLinks(schema, doc)
	if v != "" && c.Mode != "" {
		v = "validated with mode " + c.Mode + ": " + v
	}
	return v, n, true
}

func TestC09(t *testing.T) {
	r := kit.New(t, "C09")
	defer r.Finish()
	r.SetRule("G6 schemas x G8 documents that pass validation (fields reached only through fragments, __typename on unions, introspection fields, values in lists in input objects, list-coerced single values, variables nested in literals, operations sharing fragments), validated three ways: LoadQuery with the default rules (half of the cases), validator.Validate with a random non-empty subset of the 27 exported rules, and validator.Walk with no observers. " +
		"oracle: an independent traversal resolves every node through the loaded schema by name and compares with the annotations: Field.Definition/ObjectDefinition, spread and fragment definitions, inline fragment parents, Directive.Definition/Location, VariableDefinition.Definition, ExpectedType/Definition of every typed value (custom scalar contents excepted), VariableDefinition of every variable use. " +
		"non-trivial = document with a nested value or a fragment; distinct by (schema, document) text")
	replay := func(raw json.RawMessage) string {
		var c c09Case
		_ = json.Unmarshal(raw, &c)
		v, _, _ := c09Eval(c)
		return v
	}
	kit.RegisterReplayer("C09", "doc", replay)
	kit.RegisterReplayer("C09", "corpus", replay)
	if r.ReplayIfRequested() {
		return
	}
	for _, q := range c08Corpus {
		c := c09Case{valCase: valCase{Schema: c08Schema, Query: q}}
		r.Begin("corpus", func() interface{} { return c })
		v, n, ok := c09Eval(c)
		r.End()
		if ok {
			r.Case(true, "corpus:"+q)
			r.ClassN("links-checked", int64(n))
		}
		if v != "" {
			r.Violation("corpus", c, "%s", v)
		}
	}
	r.Rapid("doc", kit.Pick(20000, 400000), func(rt *rapid.T) {
		g, ok := genValidationCase(rt, 0)
		if !ok {
			rt.Skip("no case")
		}
		c := c09Case{valCase: g.Case}
		switch rapid.IntRange(0, 5).Draw(rt, "mode") {
		case 0:
			c.Mode = "walk"
		case 1, 2:
			var idx []string
			for i := range allRules {
				if rapid.IntRange(0, 3).Draw(rt, "rule") == 0 {
					idx = append(idx, strconv.Itoa(i))
				}
			}
			if len(idx) == 0 {
				idx = []string{strconv.Itoa(rapid.IntRange(0, len(allRules)-1).Draw(rt, "onerule"))}
			}
			c.Mode = strings.Join(idx, ",")
		}
		r.Begin("doc", func() interface{} { return c })
		defer r.End()
		v, n, validated := c09Eval(c)
		if c.Mode == "" {
			r.Class("mode:default-rules")
		} else if c.Mode == "walk" {
			r.Class("mode:walk-without-observers")
		} else {
			r.Class("mode:rule-subset")
		}
		if !validated {
			r.Class("doc:not-validated(skipped)")
			return
		}
		nt := strings.Contains(c.Query, "...") || strings.Contains(c.Query, "[") || strings.Contains(c.Query, "{ a :") || strings.Contains(c.Query, ": {")
		r.Case(nt, c.Schema+"\x00"+c.Query)
		r.ClassN("links-checked", int64(n))
		if strings.Contains(c.Query, "$") {
			r.Class("doc:has-variable-use")
		}
		if strings.Contains(c.Query, "fragment") {
			r.Class("doc:has-fragment")
		}
		if r.WantSample("doc") {
			r.Sample("doc", c)
		}
		if v != "" {
			r.Failf(rt, "doc", c, "%s", v)
		}
	})
}
