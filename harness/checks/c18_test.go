package checks

import (
	"encoding/json"
	"fmt"
	"sort"
	"strings"
	"testing"

	"github.com/vektah/gqlparser/v2/ast"
	"github.com/vektah/gqlparser/v2/gqlerror"
	"github.com/vektah/gqlparser/v2/parser"
	"github.com/vektah/gqlparser/v2/validator"
	"github.com/vektah/gqlparser/v2/validator/rules"
	"pgregory.net/rapid"

	"verif/harness/kit"
)

// C18 — rule sets compose.

// the exported rules in the order the default rule set registers them (file name order)
var allRules = []validator.Rule{
	rules.FieldsOnCorrectTypeRule, rules.FragmentsOnCompositeTypesRule, rules.KnownArgumentNamesRule, rules.KnownDirectivesRule, rules.KnownFragmentNamesRule,
	rules.KnownRootTypeRule, rules.KnownTypeNamesRule, rules.LoneAnonymousOperationRule, rules.MaxIntrospectionDepth, rules.NoFragmentCyclesRule,
	rules.NoUndefinedVariablesRule, rules.NoUnusedFragmentsRule, rules.NoUnusedVariablesRule, rules.OverlappingFieldsCanBeMergedRule, rules.PossibleFragmentSpreadsRule,
	rules.ProvidedRequiredArgumentsRule, rules.ScalarLeafsRule, rules.SingleFieldSubscriptionsRule, rules.UniqueArgumentNamesRule, rules.UniqueDirectivesPerLocationRule,
	rules.UniqueFragmentNamesRule, rules.UniqueInputFieldNamesRule, rules.UniqueOperationNamesRule, rules.UniqueVariableNamesRule, rules.ValuesOfCorrectTypeRule,
	rules.VariablesAreInputTypesRule, rules.VariablesInAllowedPositionRule,
}

var withoutSuggestions = []struct{ std, without validator.Rule }{
	{rules.FieldsOnCorrectTypeRule, rules.FieldsOnCorrectTypeRuleWithoutSuggestions},
	{rules.KnownArgumentNamesRule, rules.KnownArgumentNamesRuleWithoutSuggestions},
	{rules.KnownTypeNamesRule, rules.KnownTypeNamesRuleWithoutSuggestions},
	{rules.ValuesOfCorrectTypeRule, rules.ValuesOfCorrectTypeRuleWithoutSuggestions},
}

type errKey struct {
	Rule, Message, Locs string
}

func keysOf(errs gqlerror.List, mapRule func(string) string, cutSuggestion bool) []string {
	var out []string
	for _, e := range errs {
		m := e.Message
		if cutSuggestion {
			if i := strings.Index(m, " Did you mean"); i >= 0 {
				m = m[:i]
			}
		}
		r := e.Rule
		if mapRule != nil {
			r = mapRule(r)
		}
		out = append(out, fmt.Sprintf("%s|%s|%v", r, m, e.Locations))
	}
	sort.Strings(out)
	return out
}

func sameMultiset(a, b []string) (bool, string) {
	if len(a) != len(b) {
		return false, fmt.Sprintf("%d vs %d errors", len(a), len(b))
	}
	for i := range a {
		if a[i] != b[i] {
			return false, fmt.Sprintf("%q vs %q", a[i], b[i])
		}
	}
	return true, ""
}

type c18Case struct {
	valCase
	Subset []int `json:"subset,omitempty"`
}

// c18Eval checks composition on one pair; every Validate call gets a freshly parsed document.
func c18Eval(c c18Case) (viol string, distinctRules int) {
	schema, err := libLoadSchema(c.Schema)
	if err != nil {
		return "", 0
	}
	fresh := func() *ast.QueryDocument {
		d, err := parser.ParseQuery(&ast.Source{Input: c.Query})
		if err != nil {
			return nil
		}
		return d
	}
	if fresh() == nil {
		return "", 0
	}
	var pan *kit.Panic
	run := func(rs ...validator.Rule) gqlerror.List {
		var out gqlerror.List
		if p := kit.Safely(func() { out = validator.Validate(schema, fresh(), rs...) }); p != nil {
			pan = p
		}
		return out
	}
	single := make([][]string, len(allRules))
	fired := 0
	for i, rule := range allRules {
		errs := run(rule)
		if pan != nil {
			return "", 0 // crashes are C02's business
		}
		for _, e := range errs {
			if e.Rule != rule.Name {
				return fmt.Sprintf("running only %s yields an error tagged %q: %s", rule.Name, e.Rule, e.Message), fired
			}
		}
		single[i] = keysOf(errs, nil, false)
		if len(errs) > 0 {
			fired++
		}
	}
	union := func(idx []int) []string {
		var out []string
		for _, i := range idx {
			out = append(out, single[i]...)
		}
		sort.Strings(out)
		return out
	}
	all := make([]int, len(allRules))
	for i := range all {
		all[i] = i
	}
	// default rule set == explicit full list (also in order) == union of singletons
	def := run()
	explicit := run(allRules...)
	if pan != nil {
		return "", fired
	}
	if a, b := errDigest(def), errDigest(explicit); a != b {
		return "the default rule set and the explicit list of all rules differ:\n default: " + diffAround(a, b) + "\n explicit: " + diffAround(b, a), fired
	}
	if ok, d := sameMultiset(keysOf(explicit, nil, false), union(all)); !ok {
		return "the full rule set does not report the union of what its rules report alone: " + d, fired
	}
	// the drawn subset, in its drawn order
	if len(c.Subset) > 0 {
		var rs []validator.Rule
		for _, i := range c.Subset {
			rs = append(rs, allRules[i])
		}
		got := run(rs...)
		if pan != nil {
			return "", fired
		}
		if ok, d := sameMultiset(keysOf(got, nil, false), union(c.Subset)); !ok {
			return fmt.Sprintf("rule set %v does not report the union of what its rules report alone: %s", c.Subset, d), fired
		}
	}
	// suggestion-free variants
	for _, w := range withoutSuggestions {
		std := run(w.std)
		wo := run(w.without)
		if pan != nil {
			return "", fired
		}
		for _, e := range wo {
			if strings.Contains(e.Message, "Did you mean") {
				return fmt.Sprintf("%s emits a suggestion: %s", w.without.Name, e.Message), fired
			}
			if e.Rule != w.without.Name {
				return fmt.Sprintf("%s yields an error tagged %q", w.without.Name, e.Rule), fired
			}
		}
		rename := func(string) string { return w.std.Name }
		if ok, d := sameMultiset(keysOf(std, nil, true), keysOf(wo, rename, false)); !ok {
			return fmt.Sprintf("%s and %s differ beyond the 'Did you mean' suffix: %s", w.std.Name, w.without.Name, d), fired
		}
	}
	return "", fired
}

func TestC18(t *testing.T) {
	r := kit.New(t, "C18")
	defer r.Finish()
	r.SetRule("C08's distribution of (schema, document) pairs (valid, 1-3 faults, type-blind, misspelt names); rule sets: all 27 singletons (exhaustive), the default set, the explicit full list, one random subset in random order per pair, the four WithoutSuggestions variants. " +
		"oracle (every call on a freshly parsed document): errors of a set == multiset union of the singleton results, each error tagged with its rule; default == explicit full list including order; a suggestion-free variant == its standard rule with the 'Did you mean' suffix cut and the rule renamed. non-trivial = pairs on which >= 2 different rules fire; distinct by text")
	r.Exhaustive("all 27 singleton rule sets and all 4 suggestion-free variants for every pair")
	replay := func(raw json.RawMessage) string {
		var c c18Case
		_ = json.Unmarshal(raw, &c)
		v, _ := c18Eval(c)
		return v
	}
	kit.RegisterReplayer("C18", "pair", replay)
	kit.RegisterReplayer("C18", "corpus", replay)
	if r.ReplayIfRequested() {
		return
	}
	for _, q := range append(append([]string{}, c10Corpus...), c08Corpus...) {
		c := c18Case{valCase: valCase{Schema: c10Schema, Query: q}}
		if !strings.Contains(q, "fragment F on") && !strings.Contains(q, "nme") && !strings.Contains(q, "nae") {
			c.Schema = c08Schema
		}
		r.Begin("corpus", func() interface{} { return c })
		v, n := c18Eval(c)
		r.End()
		r.Case(n >= 2, "corpus:"+q)
		if v != "" {
			r.Violation("corpus", c, "%s", v)
		}
	}
	if r.Violations() > 0 {
		return
	}
	r.Rapid("pair", kit.Pick(5000, 100000), func(rt *rapid.T) {
		vc, ok := genC10Case(rt)
		if !ok || vc.Class == "two-schema-faults" {
			rt.Skip("no case")
		}
		c := c18Case{valCase: vc}
		n := rapid.IntRange(2, 8).Draw(rt, "subsetsize")
		idx := make([]int, len(allRules))
		for i := range idx {
			idx[i] = i
		}
		c.Subset = rapid.Permutation(idx).Draw(rt, "perm")[:n]
		r.Begin("pair", func() interface{} { return c })
		defer r.End()
		v, fired := c18Eval(c)
		r.Case(fired >= 2, c.Schema+"\x00"+c.Query)
		r.Class("pair:" + c.Class)
		r.Class(fmt.Sprintf("pair:rules-firing=%d", min(fired, 5)))
		if fired >= 2 && r.WantSample("pair") {
			r.Sample("pair", c)
		}
		if v != "" {
			r.Failf(rt, "pair", c, "%s", v)
		}
	})
}
