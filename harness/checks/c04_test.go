package checks

import (
	"encoding/json"
	"fmt"
	"reflect"
	"strings"
	"testing"
	"unicode/utf8"

	"github.com/vektah/gqlparser/v2"
	"github.com/vektah/gqlparser/v2/ast"
	"github.com/vektah/gqlparser/v2/gqlerror"
	"github.com/vektah/gqlparser/v2/parser"
	"github.com/vektah/gqlparser/v2/validator"
	"pgregory.net/rapid"

	"verif/harness/gen"
	"verif/harness/kit"
	"verif/harness/proj"
	"verif/harness/ref"
)

// C04 — every reported position is truthful (DESIGN.md 6/C04).

// srcIndex caches what the oracle needs to know about one source text.
type srcIndex struct {
	rs        []rune
	lex       ref.LexResult
	startKind map[int]ref.Kind // token start offset -> kind (comments included, EOF included)
	startTok  map[int]ref.Tok
	lineStart []int
}

func indexSource(text string) *srcIndex {
	rs := []rune(text)
	ix := &srcIndex{rs: rs, lex: ref.Lex(rs, lexOptsOpen("C04")), startKind: map[int]ref.Kind{}, startTok: map[int]ref.Tok{}}
	for _, t := range ix.lex.Toks {
		ix.startKind[t.Start] = t.Kind
		ix.startTok[t.Start] = t
	}
	ix.lineStart = []int{0}
	for i := 0; i < len(rs); i++ {
		switch rs[i] {
		case '\n':
			ix.lineStart = append(ix.lineStart, i+1)
		case '\r':
			if i+1 < len(rs) && rs[i+1] == '\n' {
				i++
			}
			ix.lineStart = append(ix.lineStart, i+1)
		}
	}
	return ix
}

// wantLineCol is O2, adjusted by the open known finding on quoted-string columns.
func (ix *srcIndex) wantLineCol(off int) (int, int) {
	l, c := ref.LineCol(ix.rs, off)
	if kit.KFOpen("C04", "string-token-column") && ix.startKind[off] == ref.String {
		c++
	}
	return l, c
}

func (ix *srcIndex) offsetOf(line, col int) (int, bool) {
	if line < 1 || line > len(ix.lineStart) || col < 1 {
		return 0, false
	}
	off := ix.lineStart[line-1] + col - 1
	if off > len(ix.rs) {
		return 0, false
	}
	return off, true
}

// checkPosition validates one *ast.Position against the sources it may belong to.
func checkPosition(p *ast.Position, what string, sources map[*ast.Source]*srcIndex) string {
	if p == nil {
		return ""
	}
	ix := sources[p.Src]
	if ix == nil {
		return fmt.Sprintf("%s: position refers to a source that was not given to the parser", what)
	}
	if p.Start < 0 || p.Start > len(ix.rs) {
		return fmt.Sprintf("%s: offset %d outside the source (%d characters)", what, p.Start, len(ix.rs))
	}
	if _, ok := ix.startKind[p.Start]; !ok {
		return fmt.Sprintf("%s: offset %d is not the start of a token", what, p.Start)
	}
	l, c := ix.wantLineCol(p.Start)
	if p.Line != l || p.Column != c {
		return fmt.Sprintf("%s: offset %d is line %d column %d, reported line %d column %d", what, p.Start, l, c, p.Line, p.Column)
	}
	return ""
}

// checkTokenAt verifies that the token at p.Start is a name token spelling want.
func checkNameAt(p *ast.Position, want, what string, sources map[*ast.Source]*srcIndex) string {
	if p == nil {
		return ""
	}
	ix := sources[p.Src]
	if ix == nil {
		return ""
	}
	t, ok := ix.startTok[p.Start]
	if !ok {
		return ""
	}
	if t.Kind != ref.Name || t.Value != want {
		return fmt.Sprintf("%s %q: position points at token %s %q of source %q", what, want, t.Kind, t.Value, p.Src.Name)
	}
	return ""
}

var posType = reflect.TypeOf(&ast.Position{})

// walkPositions visits every *ast.Position reachable from v (without following Position.Src)
// and applies the node-specific expectations.
func walkPositions(v reflect.Value, path string, sources map[*ast.Source]*srcIndex, seen map[uintptr]bool, count *int) string {
	switch v.Kind() {
	case reflect.Ptr:
		if v.IsNil() {
			return ""
		}
		if v.Type() == posType {
			*count++
			return checkPosition(v.Interface().(*ast.Position), path, sources)
		}
		if seen[v.Pointer()] {
			return ""
		}
		seen[v.Pointer()] = true
		// node-specific: the token under the position
		switch n := v.Interface().(type) {
		case *ast.Definition:
			if m := checkNameAt(n.Position, n.Name, path+" definition", sources); m != "" {
				return m
			}
		case *ast.DirectiveDefinition:
			if m := checkNameAt(n.Position, n.Name, path+" directive definition", sources); m != "" {
				return m
			}
		case *ast.Field:
			if m := checkNameAt(n.Position, n.Alias, path+" field", sources); m != "" {
				return m
			}
		case *ast.Argument:
			if m := checkNameAt(n.Position, n.Name, path+" argument", sources); m != "" {
				return m
			}
		case *ast.Directive:
			if m := checkNameAt(n.Position, n.Name, path+" directive", sources); m != "" {
				return m
			}
		case *ast.FragmentSpread:
			if m := checkNameAt(n.Position, n.Name, path+" fragment spread", sources); m != "" {
				return m
			}
		case *ast.ChildValue:
			if n.Name != "" {
				if m := checkNameAt(n.Position, n.Name, path+" object field", sources); m != "" {
					return m
				}
			}
		case *ast.Type:
			if n.NamedType != "" {
				if m := checkNameAt(n.Position, n.NamedType, path+" type", sources); m != "" {
					return m
				}
			}
		}
		return walkPositions(v.Elem(), path, sources, seen, count)
	case reflect.Interface:
		if v.IsNil() {
			return ""
		}
		return walkPositions(v.Elem(), path, sources, seen, count)
	case reflect.Struct:
		for i := 0; i < v.NumField(); i++ {
			f := v.Type().Field(i)
			if f.Type == reflect.TypeOf((*ast.Source)(nil)) {
				continue
			}
			if m := walkPositions(v.Field(i), path+"."+f.Name, sources, seen, count); m != "" {
				return m
			}
		}
	case reflect.Slice:
		for i := 0; i < v.Len(); i++ {
			if m := walkPositions(v.Index(i), fmt.Sprintf("%s[%d]", path, i), sources, seen, count); m != "" {
				return m
			}
		}
	case reflect.Map:
		for _, k := range v.MapKeys() {
			if m := walkPositions(v.MapIndex(k), fmt.Sprintf("%s[%v]", path, k), sources, seen, count); m != "" {
				return m
			}
		}
	}
	return ""
}

// checkErrorLocation: every location of a syntax error maps back to the start of a token (or
// the end of input) of the named file; for an unlexable lexeme it lies between the start of
// that lexeme and the point where the reference gives up.
func checkErrorLocation(err error, byName map[string]*srcIndex) string {
	ge, ok := err.(*gqlerror.Error)
	if !ok {
		return ""
	}
	file, _ := ge.Extensions["file"].(string)
	ix := byName[file]
	if ix == nil {
		return fmt.Sprintf("error %q names file %q which is not one of the sources", ge.Message, file)
	}
	for _, l := range ge.Locations {
		off, ok := ix.offsetOf(l.Line, l.Column)
		if !ok && kit.KFOpen("C04", "string-token-column") {
			off, ok = ix.offsetOf(l.Line, l.Column-1)
			if ok && ix.startKind[off] != ref.String {
				ok = false
			}
		}
		if !ok {
			return fmt.Sprintf("error %q at line %d column %d lies outside file %q", ge.Message, l.Line, l.Column, file)
		}
		if _, isStart := ix.startKind[off]; isStart {
			continue
		}
		if !ix.lex.OK && off >= ix.lex.FailStart && off <= ix.lex.FailEnd+1 {
			continue // inside the lexeme that cannot be tokenised
		}
		if kit.KFOpen("C04", "string-token-column") && ix.startKind[off-1] == ref.String {
			continue
		}
		return fmt.Sprintf("error %q at line %d column %d (offset %d) of file %q is not the start of a token", ge.Message, l.Line, l.Column, off, file)
	}
	return ""
}

type c04Case struct {
	Sources []c04Source `json:"sources"`
	Schema  bool        `json:"schema"`
}
type c04Source struct {
	Name  string `json:"name"`
	Input string `json:"input"`
}

func c04Interesting(text string) bool {
	return strings.ContainsAny(text, "\r#\uFEFF") || strings.Contains(text, `"""`) || len(text) != utf8.RuneCountInString(text)
}

// c04Eval: tokens, nodes and the syntax error (if any) of one parse.
func c04Eval(c c04Case) (viol string, positions int) {
	sources := map[*ast.Source]*srcIndex{}
	byName := map[string]*srcIndex{}
	var srcs []*ast.Source
	for _, s := range c.Sources {
		if !utf8.ValidString(s.Input) {
			return "", 0
		}
		src := &ast.Source{Name: s.Name, Input: s.Input}
		srcs = append(srcs, src)
		ix := indexSource(s.Input)
		sources[src] = ix
		byName[s.Name] = ix
		// (i) tokens
		toks, _ := proj.LibLex(src)
		for i, t := range toks {
			if i >= len(ix.lex.Toks) {
				break // token stream disagreement is C03's business
			}
			w := ix.lex.Toks[i]
			if w.Start != t.Start || string(w.Kind) != t.Kind {
				break
			}
			l, col := ix.wantLineCol(t.Start)
			positions++
			if t.Line != l || t.Column != col {
				return fmt.Sprintf("token %d (%s at offset %d of %q): line %d column %d, reported line %d column %d", i, t.Kind, t.Start, s.Name, l, col, t.Line, t.Column), positions
			}
		}
	}
	var doc interface{}
	var err error
	if p := kit.Safely(func() {
		if c.Schema {
			doc, err = parser.ParseSchemas(srcs...)
		} else {
			doc, err = parser.ParseQuery(srcs[0])
		}
	}); p != nil {
		return "", positions // totality is C01's business
	}
	if err != nil {
		return checkErrorLocation(err, byName), positions
	}
	n := 0
	if m := walkPositions(reflect.ValueOf(doc), "doc", sources, map[uintptr]bool{}, &n); m != "" {
		return m, positions + n
	}
	positions += n
	// (iv) definitions name the file they were written in
	if sd, ok := doc.(*ast.SchemaDocument); ok && len(srcs) > 1 {
		check := func(name string, p *ast.Position) string {
			i := strings.LastIndex(name, "_s")
			if i < 0 || p == nil {
				return ""
			}
			if want := "f" + name[i+2:]; p.Src.Name != want {
				return fmt.Sprintf("definition %s was written in %s but its position names %s", name, want, p.Src.Name)
			}
			return ""
		}
		for _, d := range sd.Definitions {
			if m := check(d.Name, d.Position); m != "" {
				return m, positions
			}
		}
		for _, d := range sd.Extensions {
			if m := check(d.Name, d.Position); m != "" {
				return m, positions
			}
		}
		for _, d := range sd.Directives {
			if m := check(d.Name, d.Position); m != "" {
				return m, positions
			}
		}
	}
	return "", positions
}

func c04Replay(raw json.RawMessage) string {
	var c c04Case
	if err := json.Unmarshal(raw, &c); err != nil {
		return "bad replay case: " + err.Error()
	}
	v, _ := c04Eval(c)
	return v
}

func TestC04(t *testing.T) {
	r := kit.New(t, "C04")
	defer r.Finish()
	r.SetRule("documents of both grammars rendered from generated trees with multi-line block strings, comments, CR/CRLF/LF mixes, BOMs and multi-byte text between any two tokens; 1-4 named sources for schemas; single-lexeme mutants and lexically broken tails for syntax errors; lexical soups. " +
		"oracle: token line/column == O2(offset); every *ast.Position reachable by reflection starts at a token start of its own source with line/column == O2(offset), name-bearing nodes point at the token spelling their name, definitions name the file they were written in; " +
		"every error location maps back to a token start (or the end of input, or inside the unlexable lexeme) of the file named in extensions.file. non-trivial = text containing CR, a comment, a BOM, a block string or a multi-byte character; distinct by text")
	r.Assume("O2: LF, CR and CRLF each end one line; columns count code points (a BOM is one code point)")
	for _, c := range []string{"doc", "multi", "mutant", "soup", "corpus"} {
		kit.RegisterReplayer("C04", c, c04Replay)
	}
	errReplay := func(raw json.RawMessage) string {
		var c c04ErrCase
		_ = json.Unmarshal(raw, &c)
		v, _ := c04ErrEval(c)
		return v
	}
	kit.RegisterReplayer("C04", "loaderror", errReplay)
	kit.RegisterReplayer("C04", "validationerror", errReplay)
	if r.ReplayIfRequested() {
		return
	}

	for _, in := range c04Corpus {
		for _, schema := range []bool{false, true} {
			c := c04Case{Sources: []c04Source{{"f0", in}}, Schema: schema}
			r.Begin("corpus", func() interface{} { return c })
			v, n := c04Eval(c)
			r.End()
			r.Case(true, fmt.Sprintf("corpus:%v:%s", schema, in))
			r.ClassN("positions-checked", int64(n))
			if v != "" {
				r.Violation("corpus", c, "%s", v)
			}
		}
	}
	if r.Violations() > 0 {
		return
	}

	r.Rapid("doc", kit.Pick(3000, 100000), func(rt *rapid.T) {
		schema := rapid.Bool().Draw(rt, "schema")
		var lex []string
		if schema {
			lex = gen.SchemaLexemes(gen.SchemaDocTree().Draw(rt, "sdoc"), gen.Rand(rt))
		} else {
			lex = gen.QueryLexemes(gen.QueryDoc().Draw(rt, "qdoc"), gen.Rand(rt))
		}
		text := gen.JoinRandom(rt, lex, true)
		c := c04Case{Sources: []c04Source{{rapid.SampledFrom([]string{"", "f0"}).Draw(rt, "fname"), text}}, Schema: schema}
		r.Begin("doc", func() interface{} { return c })
		defer r.End()
		v, n := c04Eval(c)
		r.Case(c04Interesting(text), text)
		r.ClassN("positions-checked", int64(n))
		if r.WantSample("doc") {
			r.Sample("doc", c)
		}
		if v != "" {
			r.Failf(rt, "doc", c, "%s", v)
		}
	})

	r.Rapid("multi", kit.Pick(1000, 40000), func(rt *rapid.T) {
		k := rapid.IntRange(2, 4).Draw(rt, "nsources")
		c := c04Case{Schema: true}
		all := ""
		for i := 0; i < k; i++ {
			st := gen.SchemaDocTree().Draw(rt, "sdoc")
			suffix := fmt.Sprintf("_s%d", i)
			for _, d := range st.Doc.Defs {
				d.Name += suffix
			}
			for _, d := range st.Doc.Exts {
				d.Name += suffix
			}
			for _, d := range st.Doc.Directives {
				d.Name += suffix
			}
			text := gen.JoinRandom(rt, gen.SchemaLexemes(st, gen.Rand(rt)), true)
			if i == k-1 && rapid.IntRange(0, 3).Draw(rt, "break") == 0 {
				text += rapid.SampledFrom([]string{" }", " type", ` "abc`, " \x01"}).Draw(rt, "broken")
			}
			c.Sources = append(c.Sources, c04Source{fmt.Sprintf("f%d", i), text})
			all += text + "\x00"
		}
		r.Begin("multi", func() interface{} { return c })
		defer r.End()
		v, n := c04Eval(c)
		r.Case(c04Interesting(all), all)
		r.ClassN("positions-checked", int64(n))
		if r.WantSample("multi") {
			r.Sample("multi", c)
		}
		if v != "" {
			r.Failf(rt, "multi", c, "%s", v)
		}
	})

	r.Rapid("mutant", kit.Pick(8000, 200000), func(rt *rapid.T) {
		schema := rapid.Bool().Draw(rt, "schema")
		var lex []string
		alpha := c05MutAlphabet
		if schema {
			lex = gen.SchemaLexemes(gen.SchemaDocTree().Draw(rt, "sdoc"), gen.Rand(rt))
			alpha = c06Alphabet
		} else {
			lex = gen.QueryLexemes(gen.QueryDoc().Draw(rt, "qdoc"), gen.Rand(rt))
		}
		lex, _ = mutateLexemes(rt, lex, alpha)
		text := gen.JoinRandom(rt, lex, true)
		if rapid.IntRange(0, 4).Draw(rt, "break") == 0 {
			text += rapid.SampledFrom([]string{` "abc`, " \x01", " 1.", ` """x`, " \\", " ..", ` "\u12"`, ` "\q"`, " 00", " 1e"}).Draw(rt, "broken")
		}
		c := c04Case{Sources: []c04Source{{"f0", text}}, Schema: schema}
		r.Begin("mutant", func() interface{} { return c })
		defer r.End()
		v, n := c04Eval(c)
		r.Case(c04Interesting(text), text)
		r.ClassN("positions-checked", int64(n))
		if v != "" {
			r.Failf(rt, "mutant", c, "%s", v)
		}
	})

	r.Rapid("loaderror", kit.Pick(1500, 60000), func(rt *rapid.T) {
		st := gen.TypedSchema().Draw(rt, "schema")
		if _, ok := gen.ApplySchemaFault(rt, &st, rapid.IntRange(0, gen.NumSchemaFaults()-1).Draw(rt, "fault")); !ok {
			rt.Skip("no target")
		}
		pieces := gen.SchemaPieces(st, gen.Rand(rt))
		ns := rapid.IntRange(1, 3).Draw(rt, "nsources")
		c := c04ErrCase{}
		for i := 0; i < ns; i++ {
			c.Sources = append(c.Sources, c04Source{Name: fmt.Sprintf("f%d", i)})
		}
		all := ""
		for _, p := range pieces {
			i := rapid.IntRange(0, ns-1).Draw(rt, "src")
			c.Sources[i].Input += gen.JoinRandom(rt, p, true) + rapid.SampledFrom([]string{"\n", "\r\n", "\r", " "}).Draw(rt, "sep")
		}
		for _, s := range c.Sources {
			all += s.Input + "\x00"
		}
		r.Begin("loaderror", func() interface{} { return c })
		defer r.End()
		v, n := c04ErrEval(c)
		r.Case(n > 0 && c04Interesting(all), all)
		r.ClassN("load-error-locations-checked", int64(n))
		if v != "" {
			r.Failf(rt, "loaderror", c, "%s", v)
		}
	})

	r.Rapid("validationerror", kit.Pick(1500, 60000), func(rt *rapid.T) {
		g, ok := genValidationCase(rt, rapid.IntRange(1, 2).Draw(rt, "class"))
		if !ok {
			rt.Skip("no case")
		}
		var lex []string
		if g.Typed != nil {
			lex = gen.QueryLexemes(g.Typed.Doc, gen.Rand(rt))
			if rapid.Bool().Draw(rt, "misspell") {
				lex = misspell(rt, lex)
			}
		} else {
			lex = strings.Fields(g.Case.Query)
		}
		c := c04ErrCase{Sources: []c04Source{{"schema.graphql", g.Case.Schema}}, Query: gen.JoinRandom(rt, lex, true), QName: rapid.SampledFrom([]string{"", "q.graphql"}).Draw(rt, "qname")}
		r.Begin("validationerror", func() interface{} { return c })
		defer r.End()
		v, n := c04ErrEval(c)
		r.Case(n > 0 && c04Interesting(c.Query), c.Query)
		r.ClassN("validation-error-locations-checked", int64(n))
		if v != "" {
			r.Failf(rt, "validationerror", c, "%s", v)
		}
	})

	r.Rapid("soup", kit.Pick(10000, 200000), func(rt *rapid.T) {
		text := gen.Soup(true).Draw(rt, "input")
		c := c04Case{Sources: []c04Source{{"f0", text}}, Schema: rapid.Bool().Draw(rt, "schema")}
		r.Begin("soup", func() interface{} { return c })
		defer r.End()
		v, n := c04Eval(c)
		r.Case(c04Interesting(text), text)
		r.ClassN("positions-checked", int64(n))
		if v != "" {
			r.Failf(rt, "soup", c, "%s", v)
		}
	})
}

// c04ErrCase: locations of schema-load and validation errors.
type c04ErrCase struct {
	Sources []c04Source `json:"sources"` // schema sources
	Query   string      `json:"query,omitempty"`
	QName   string      `json:"qname,omitempty"`
}

func c04ErrEval(c c04ErrCase) (viol string, n int) {
	byName := map[string]*srcIndex{}
	var srcs []*ast.Source
	for _, s := range c.Sources {
		srcs = append(srcs, &ast.Source{Name: s.Name, Input: s.Input})
		byName[s.Name] = indexSource(s.Input)
	}
	var schema *ast.Schema
	var err error
	if p := kit.Safely(func() { schema, err = gqlparser.LoadSchema(srcs...) }); p != nil {
		return "", 0
	}
	if err != nil {
		ge, ok := err.(*gqlerror.Error)
		if !ok || len(ge.Locations) == 0 {
			return "", 0 // shape of errors is C20's subject
		}
		if f, _ := ge.Extensions["file"].(string); f == "prelude.graphql" {
			return "", 0
		}
		return checkErrorLocation(ge, byName), len(ge.Locations)
	}
	if c.Query == "" {
		return "", 0
	}
	qix := indexSource(c.Query)
	qByName := map[string]*srcIndex{c.QName: qix}
	d, perr := parser.ParseQuery(&ast.Source{Name: c.QName, Input: c.Query})
	if perr != nil {
		return "", 0
	}
	var errs gqlerror.List
	if p := kit.Safely(func() { errs = validator.Validate(schema, d) }); p != nil {
		return "", 0
	}
	for _, e := range errs {
		n += len(e.Locations)
		if v := checkErrorLocation(e, qByName); v != "" {
			return "[" + e.Rule + "] " + v, n
		}
	}
	return "", n
}

var c04Corpus = []string{
	"{ \"\"\"a\nb\"\"\" }", "\"\"\"a\n\n  b\"\"\" type A { \"\"\"x\ny\"\"\" a: Int }", "\"abc\" type A", "{ a(x: \"abc\") }", "type A { \"d\" a(\"e\" b: Int): Int }", "enum E { \"d\" A }",
	"\"u\"\r\n", "{\r\n  a\r\n  b }", "{\r a\r\n\n b }", "\uFEFF{ a }", "{\uFEFF a \uFEFF}", "# é😀\n{ a }", "{ a(x: \"é😀\") b }", "{ a(x: \"é😀\") \"s\" }", "{ a(x: \"\"\"é\n😀\"\"\") b @ }",
	"type A {\r\n  \"\"\"d\r\nd2\"\"\"\r\n  a: Int\r\n}", "type A { a: Int }\r\ntype A_ { b: Int ", "{ a\r\n  }}", "{ a }\r\n\r\n  query", "query ($a: [Int!]! = [1,\r\n 2]) { a }",
}
