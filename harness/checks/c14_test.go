package checks

import (
	"encoding/json"
	"fmt"
	"math/big"
	"reflect"
	"strconv"
	"strings"
	"testing"

	"github.com/vektah/gqlparser/v2"
	"github.com/vektah/gqlparser/v2/ast"
	"github.com/vektah/gqlparser/v2/gqlerror"
	"github.com/vektah/gqlparser/v2/validator"
	"pgregory.net/rapid"

	"verif/harness/gen"
	"verif/harness/kit"
	"verif/harness/ref"
)

// C14 — variable coercion is total and its results conform to the declared types.

type c14Case struct {
	Schema string `json:"schema"`
	Query  string `json:"query"`
	// Vars in an encoding that keeps Go types: see encodeGo / decodeGo
	Vars   interface{} `json:"vars"`
	Defect string      `json:"defect,omitempty"`
}

// encodeGo turns a Go value into a JSON-able description that preserves its dynamic types.
func encodeGo(v interface{}) interface{} {
	switch x := v.(type) {
	case nil:
		return map[string]interface{}{"t": "nil"}
	case bool:
		return map[string]interface{}{"t": "bool", "v": x}
	case int:
		return map[string]interface{}{"t": "int", "v": strconv.Itoa(x)}
	case int32:
		return map[string]interface{}{"t": "int32", "v": strconv.Itoa(int(x))}
	case int64:
		return map[string]interface{}{"t": "int64", "v": strconv.FormatInt(x, 10)}
	case float64:
		return map[string]interface{}{"t": "float64", "v": strconv.FormatFloat(x, 'g', -1, 64)}
	case float32:
		return map[string]interface{}{"t": "float32", "v": strconv.FormatFloat(float64(x), 'g', -1, 32)}
	case json.Number:
		return map[string]interface{}{"t": "json.Number", "v": string(x)}
	case string:
		return map[string]interface{}{"t": "string", "v": x}
	case []interface{}:
		var items []interface{}
		for _, i := range x {
			items = append(items, encodeGo(i))
		}
		return map[string]interface{}{"t": "[]interface{}", "v": items}
	case []int:
		var items []interface{}
		for _, i := range x {
			items = append(items, i)
		}
		return map[string]interface{}{"t": "[]int", "v": items}
	case []string:
		var items []interface{}
		for _, i := range x {
			items = append(items, i)
		}
		return map[string]interface{}{"t": "[]string", "v": items}
	case []float64:
		var items []interface{}
		for _, i := range x {
			items = append(items, i)
		}
		return map[string]interface{}{"t": "[]float64", "v": items}
	case []map[string]interface{}:
		var items []interface{}
		for _, i := range x {
			items = append(items, encodeGo(i))
		}
		return map[string]interface{}{"t": "[]map", "v": items}
	case map[string]interface{}:
		m := map[string]interface{}{}
		for k, vv := range x {
			m[k] = encodeGo(vv)
		}
		return map[string]interface{}{"t": "map", "v": m}
	}
	return map[string]interface{}{"t": fmt.Sprintf("%T", v), "v": fmt.Sprint(v)}
}

func decodeGo(v interface{}) interface{} {
	m, ok := v.(map[string]interface{})
	if !ok {
		return v
	}
	t, _ := m["t"].(string)
	val := m["v"]
	str, _ := val.(string)
	switch t {
	case "nil":
		return nil
	case "bool":
		b, _ := val.(bool)
		return b
	case "int":
		n, _ := strconv.Atoi(str)
		return n
	case "int32":
		n, _ := strconv.Atoi(str)
		return int32(n)
	case "int64":
		n, _ := strconv.ParseInt(str, 10, 64)
		return n
	case "float64":
		f, _ := strconv.ParseFloat(str, 64)
		return f
	case "float32":
		f, _ := strconv.ParseFloat(str, 32)
		return float32(f)
	case "json.Number":
		return json.Number(str)
	case "string":
		return str
	case "[]interface{}":
		out := []interface{}{}
		items, _ := val.([]interface{})
		for _, i := range items {
			out = append(out, decodeGo(i))
		}
		return out
	case "[]int":
		out := []int{}
		items, _ := val.([]interface{})
		for _, i := range items {
			f, _ := i.(float64)
			out = append(out, int(f))
		}
		return out
	case "[]string":
		out := []string{}
		items, _ := val.([]interface{})
		for _, i := range items {
			s, _ := i.(string)
			out = append(out, s)
		}
		return out
	case "[]float64":
		out := []float64{}
		items, _ := val.([]interface{})
		for _, i := range items {
			f, _ := i.(float64)
			out = append(out, f)
		}
		return out
	case "[]map":
		out := []map[string]interface{}{}
		items, _ := val.([]interface{})
		for _, i := range items {
			mm, _ := decodeGo(i).(map[string]interface{})
			out = append(out, mm)
		}
		return out
	case "map":
		out := map[string]interface{}{}
		mm, _ := val.(map[string]interface{})
		for k, vv := range mm {
			out[k] = decodeGo(vv)
		}
		return out
	}
	return nil
}

// conforms is O7: does Go value v conform to type ty of schema s? It returns "" or the reason.
// canConform reports whether the supplied value could be coerced to ty at all: like conforms,
// but a single value is acceptable where a list is expected (it is coerced to a list of one).
func canConform(s *ref.Schema, ty *ref.Type, v interface{}) bool {
	rv := reflect.ValueOf(v)
	if v == nil || ((rv.Kind() == reflect.Ptr || rv.Kind() == reflect.Interface) && rv.IsNil()) {
		return !ty.NonNull
	}
	if ty.Elem != nil {
		if rv.Kind() != reflect.Slice {
			return canConform(s, ty.Elem, v)
		}
		for i := 0; i < rv.Len(); i++ {
			if !canConform(s, ty.Elem, rv.Index(i).Interface()) {
				return false
			}
		}
		return true
	}
	def := s.Types[ty.Name]
	if def != nil && def.Kind == "INPUT_OBJECT" {
		if rv.Kind() != reflect.Map {
			return false
		}
		present := map[string]bool{}
		for _, key := range rv.MapKeys() {
			if c14TolerateTypename && key.String() == "__typename" {
				continue
			}
			var fd *ref.FieldDef
			for _, f := range def.Fields {
				if f.Name == key.String() {
					fd = f
				}
			}
			if fd == nil || !canConform(s, fd.Type, rv.MapIndex(key).Interface()) {
				return false
			}
			present[key.String()] = true
		}
		for _, f := range def.Fields {
			if f.Type.NonNull && f.Default == nil && !present[f.Name] {
				return false
			}
		}
		return true
	}
	nn := *ty
	nn.NonNull = false
	return conforms(s, &nn, v, "") == ""
}

func conforms(s *ref.Schema, ty *ref.Type, v interface{}, path string) string {
	rv := reflect.ValueOf(v)
	// a nil slice is an empty list and a nil map an empty object for every Go consumer; only nil itself is null
	isNil := v == nil || ((rv.Kind() == reflect.Ptr || rv.Kind() == reflect.Interface) && rv.IsNil())
	if isNil {
		if ty.NonNull {
			return path + ": null at a non-null position of type " + ty.String()
		}
		return ""
	}
	if ty.Elem != nil {
		if rv.Kind() != reflect.Slice {
			return fmt.Sprintf("%s: %T where a list (%s) is expected", path, v, ty)
		}
		for i := 0; i < rv.Len(); i++ {
			if m := conforms(s, ty.Elem, rv.Index(i).Interface(), fmt.Sprintf("%s[%d]", path, i)); m != "" {
				return m
			}
		}
		return ""
	}
	k := rv.Kind()
	isInt := k == reflect.Int || k == reflect.Int32 || k == reflect.Int64
	isFloat := k == reflect.Float32 || k == reflect.Float64
	str := ""
	if k == reflect.String {
		str = rv.String()
	}
	switch ty.Name {
	case "Int":
		if isInt || isFloat {
			return ""
		}
		if k == reflect.String {
			if _, err := strconv.ParseInt(str, 10, 64); err == nil {
				return ""
			}
		}
		return fmt.Sprintf("%s: %T %v is not compatible with Int", path, v, v)
	case "Float":
		if isInt || isFloat {
			return ""
		}
		if k == reflect.String {
			if _, err := strconv.ParseFloat(str, 64); err == nil {
				return ""
			}
		}
		return fmt.Sprintf("%s: %T %v is not compatible with Float", path, v, v)
	case "String":
		if k == reflect.String {
			return ""
		}
		return fmt.Sprintf("%s: %T %v is not compatible with String", path, v, v)
	case "Boolean":
		if k == reflect.Bool {
			return ""
		}
		return fmt.Sprintf("%s: %T %v is not compatible with Boolean", path, v, v)
	case "ID":
		if isInt || k == reflect.String {
			return ""
		}
		return fmt.Sprintf("%s: %T %v is not compatible with ID", path, v, v)
	}
	def := s.Types[ty.Name]
	if def == nil {
		return path + ": unknown type " + ty.Name
	}
	switch def.Kind {
	case "SCALAR":
		return "" // custom scalars accept anything
	case "ENUM":
		if k == reflect.String {
			for _, e := range def.EnumValues {
				if e.Name == str {
					return ""
				}
			}
		}
		return fmt.Sprintf("%s: %T %v is not a value of enum %s", path, v, v, ty.Name)
	case "INPUT_OBJECT":
		if k != reflect.Map {
			return fmt.Sprintf("%s: %T where input object %s is expected", path, v, ty.Name)
		}
		present := map[string]bool{}
		for _, key := range rv.MapKeys() {
			name := key.String()
			if c14TolerateTypename && name == "__typename" {
				continue
			}
			var fd *ref.FieldDef
			for _, f := range def.Fields {
				if f.Name == name {
					fd = f
				}
			}
			if fd == nil {
				return fmt.Sprintf("%s: field %s is not declared by %s", path, name, ty.Name)
			}
			present[name] = true
			if m := conforms(s, fd.Type, rv.MapIndex(key).Interface(), path+"."+name); m != "" {
				return m
			}
		}
		for _, f := range def.Fields {
			if f.Type.NonNull && f.Default == nil && !present[f.Name] {
				return fmt.Sprintf("%s: required field %s.%s is missing", path, ty.Name, f.Name)
			}
		}
		return ""
	}
	return path + ": not an input type"
}

type c14Decl struct {
	name       string
	ty         *ref.Type
	hasDefault bool
	def        *ref.Value
}

// representsLiteral: does Go value got represent the constant literal lit? Everything written in
// the literal must be there with the same value (an input object may carry additional keys for
// fields that have defaults of their own; a single value may have become a list of one). It
// returns "" or the reason.
func representsLiteral(lit *ref.Value, got interface{}, path string) string {
	rv := reflect.ValueOf(got)
	isNil := got == nil || ((rv.Kind() == reflect.Ptr || rv.Kind() == reflect.Interface) && rv.IsNil())
	if lit.Kind == "Null" {
		if !isNil {
			return fmt.Sprintf("%s: the default is null, the result holds %v", path, got)
		}
		return ""
	}
	if isNil {
		return fmt.Sprintf("%s: the default is %s, the result holds null", path, lit.Kind)
	}
	if lit.Kind != "List" && rv.Kind() == reflect.Slice && rv.Len() == 1 {
		return representsLiteral(lit, rv.Index(0).Interface(), path+"[0]")
	}
	switch lit.Kind {
	case "List":
		if rv.Kind() != reflect.Slice {
			return fmt.Sprintf("%s: the default is a list, the result holds %T", path, got)
		}
		if rv.Len() != len(lit.Items) {
			return fmt.Sprintf("%s: the default list has %d items, the result %d", path, len(lit.Items), rv.Len())
		}
		for i, it := range lit.Items {
			if m := representsLiteral(it, rv.Index(i).Interface(), fmt.Sprintf("%s[%d]", path, i)); m != "" {
				return m
			}
		}
	case "Object":
		if rv.Kind() != reflect.Map {
			return fmt.Sprintf("%s: the default is an input object, the result holds %T", path, got)
		}
		for _, f := range lit.Fields {
			e := rv.MapIndex(reflect.ValueOf(f.Name))
			if !e.IsValid() {
				return fmt.Sprintf("%s: key %s of the default is missing from the result", path, f.Name)
			}
			if m := representsLiteral(f.Value, e.Interface(), path+"."+f.Name); m != "" {
				return m
			}
		}
	case "Int", "Float":
		want, ok := new(big.Float).SetString(lit.Raw)
		var have *big.Float
		switch rv.Kind() {
		case reflect.Int, reflect.Int32, reflect.Int64:
			have = new(big.Float).SetInt64(rv.Int())
		case reflect.Float32, reflect.Float64:
			have = big.NewFloat(rv.Float())
		case reflect.String:
			have, _ = new(big.Float).SetString(rv.String())
		}
		if !ok || have == nil {
			return fmt.Sprintf("%s: the default is the number %s, the result holds %T %v", path, lit.Raw, got, got)
		}
		// equal up to float64 rounding of the literal
		wf, _ := want.Float64()
		hf, _ := have.Float64()
		if wf != hf {
			return fmt.Sprintf("%s: the default is %s, the result holds %v", path, lit.Raw, got)
		}
	case "Boolean":
		if rv.Kind() != reflect.Bool || rv.Bool() != (lit.Raw == "true") {
			return fmt.Sprintf("%s: the default is %s, the result holds %v", path, lit.Raw, got)
		}
	case "String", "Block", "Enum":
		if rv.Kind() != reflect.String || rv.String() != lit.Raw {
			return fmt.Sprintf("%s: the default is %q, the result holds %v", path, lit.Raw, got)
		}
	}
	return ""
}

// declsOf reads the declared variables back from the query text with the reference parser.
func declsOf(query string) []c14Decl {
	lr := ref.Lex([]rune(query), ref.LexOpts{})
	if !lr.OK {
		return nil
	}
	d, fail := ref.ParseQuery(ref.StripComments(lr.Toks), ref.ParseOpts{})
	if fail >= 0 || len(d.Ops) == 0 {
		return nil
	}
	var out []c14Decl
	for _, v := range d.Ops[0].Vars {
		out = append(out, c14Decl{v.Name, v.Type, v.Default != nil, v.Default})
	}
	return out
}

// c14TolerateTypename: relaxation for the recorded finding typename-key-passed-through (a key
// named exactly __typename in an input object is neither rejected nor removed).
var c14TolerateTypename bool

func c14Eval(c c14Case) (viol string, known []string, accepted bool) {
	c14TolerateTypename = false
	viol, known, accepted = c14EvalStrict(c)
	if viol != "" && kit.KFOpen("C14", "typename-key-passed-through") && strings.Contains(fmt.Sprint(c.Vars), "__typename") {
		c14TolerateTypename = true
		v2, k2, a2 := c14EvalStrict(c)
		c14TolerateTypename = false
		if v2 == "" {
			return "", append(k2, "typename-key-passed-through"), a2
		}
	}
	return viol, known, accepted
}

func c14EvalStrict(c c14Case) (viol string, known []string, accepted bool) {
	schema, err := libLoadSchema(c.Schema)
	if err != nil {
		return "", nil, false
	}
	doc, errs := gqlparser.LoadQuery(schema, c.Query)
	if len(errs) > 0 {
		return "", nil, false
	}
	rl := loadRef(schemaCase{Sources: []srcText{{"s", c.Schema}}}, ref.ValidateOpts{})
	if !rl.parsed || rl.schema == nil {
		return "", nil, false
	}
	vars, _ := decodeGo(c.Vars).(map[string]interface{})
	var out map[string]interface{}
	var cerr error
	if p := kit.Safely(func() { out, cerr = validator.VariableValues(schema, doc.Operations[0], vars) }); p != nil {
		if kit.KFOpen("C14", "nested-null-list-panic") && strings.Contains(p.Site, "validateVarType") && strings.Contains(p.Value, "zero Value") {
			return "", []string{"nested-null-list-panic"}, false
		}
		return "VariableValues panicked: " + p.Value + " at " + p.Site, nil, false
	}
	if cerr != nil {
		ge, ok := cerr.(*gqlerror.Error)
		if !ok {
			return fmt.Sprintf("coercion error is not a *gqlerror.Error: %T", cerr), nil, false
		}
		if ge.Message == "" {
			return "coercion error with empty message", nil, false
		}
		b, jerr := json.Marshal(ge.Path)
		var back ast.Path
		if jerr != nil || json.Unmarshal(b, &back) != nil || back.String() != ge.Path.String() {
			return fmt.Sprintf("coercion error path %q does not survive JSON", ge.Path.String()), nil, false
		}
		if out != nil {
			return "coercion returned both values and an error", nil, false
		}
		return "", nil, false
	}
	if out == nil {
		return "coercion returned neither values nor an error", nil, false
	}
	for _, d := range declsOf(c.Query) {
		if supplied, ok := vars[d.name]; ok {
			// a supplied value that cannot conform must be rejected, whatever defaults exist
			if !canConform(rl.schema, d.ty, supplied) {
				return fmt.Sprintf("the value supplied for $%s (%v) cannot conform to %s, yet coercion succeeded with %v", d.name, supplied, d.ty, out[d.name]), nil, true
			}
			// an explicit null is a value, not an absence: it is not replaced by the default
			if supplied == nil {
				if got, present := out[d.name]; !present || got != nil {
					return fmt.Sprintf("null was supplied for $%s: %s but the result holds %v (present=%v)", d.name, d.ty, got, present), nil, true
				}
			}
		}
		val, present := out[d.name]
		if !present {
			_, supplied := vars[d.name]
			if supplied || d.hasDefault {
				return fmt.Sprintf("variable $%s was supplied or has a default but is absent from the result", d.name), nil, true
			}
			if d.ty.NonNull {
				return fmt.Sprintf("variable $%s of type %s is absent from the result although coercion succeeded", d.name, d.ty), nil, true
			}
			continue
		}
		if _, supplied := vars[d.name]; !supplied && d.def != nil {
			// an absent variable takes its default
			if m := representsLiteral(d.def, val, "$"+d.name); m != "" {
				return "no value was supplied and the result is not the declared default: " + m, known, true
			}
		}
		if m := conforms(rl.schema, d.ty, val, "$"+d.name); m != "" {
			// recorded deviations
			// (only below the outermost level: the path of the offending position has an index or a field)
			if kit.KFOpen("C14", "nested-list-coercion-discarded") && strings.Contains(m, "where a list (") && strings.ContainsAny(strings.SplitN(m, ": ", 2)[0], "[.") {
				known = append(known, "nested-list-coercion-discarded")
				continue
			}
			if kit.KFOpen("C14", "enum-case-insensitive") && strings.Contains(m, "is not a value of enum") {
				known = append(known, "enum-case-insensitive")
				continue
			}
			return "coercion succeeded but the result does not conform: " + m, known, true
		}
	}
	return "", known, true
}

func TestC14(t *testing.T) {
	r := kit.New(t, "C14")
	defer r.Finish()
	r.SetRule("(schema, operation, variables): 1-4 variables of types with list depth <= 3 and every non-null pattern over Int, Float, String, Boolean, ID, an enum, two recursive input objects, a oneOf input and a custom scalar, with and without defaults; values in JSON-like Go representations (nil, bool, int, int32, int64, float32/64, json.Number, string, []interface{}, map[string]interface{}, []int, []string, []float64, []map) generated type-directed, then optionally damaged by one of 9 defect operators at a random depth, or omitted. " +
		"oracle: VariableValues returns normally; values xor error; on success every declared variable is present (or legitimately absent) and conforms to its type (non-null, list items, declared fields only, required fields, declared enum values, compatible scalar kinds); error paths survive JSON. non-trivial = list depth >= 2, a nested input object, or an injected defect; distinct by (query, variables)")
	r.Assume("compatible kinds for built-in scalars are the ones the coercer documents by accepting them: Int <- ints, floats, json.Number, integer strings; Float <- floats, ints, numeric strings; ID <- ints, strings")
	replay := func(raw json.RawMessage) string {
		var c c14Case
		_ = json.Unmarshal(raw, &c)
		v, _, _ := c14Eval(c)
		return v
	}
	kit.RegisterReplayer("C14", "vars", replay)
	kit.RegisterReplayer("C14", "corpus", replay)
	if r.ReplayIfRequested() {
		return
	}
	vs := gen.VarsSchema()
	for _, w := range c14Corpus {
		c := c14Case{Schema: gen.VarsSchemaTypes + "type Query { probe(p0: " + w.typ + "): Int }", Query: "query Q($v0: " + w.typ + ") { probe(p0: $v0) }", Vars: encodeGo(map[string]interface{}{"v0": w.val})}
		r.Begin("corpus", func() interface{} { return c })
		v, known, _ := c14Eval(c)
		r.End()
		for _, k := range known {
			r.Known(k)
		}
		r.Case(true, fmt.Sprintf("corpus:%s:%v", w.typ, w.val))
		if v != "" {
			r.Violation("corpus", c, "%s", v)
		}
	}
	if r.Violations() > 0 {
		return
	}
	r.Rapid("vars", kit.Pick(60000, 2000000), func(rt *rapid.T) {
		vc := gen.VarsOperation(rt, vs)
		vars := map[string]interface{}{}
		defect := ""
		nontrivial := false
		for i, ty := range vc.Types {
			name := fmt.Sprintf("v%d", i)
			if ty.Elem != nil && ty.Elem.Elem != nil || ty.Base() == "Node" {
				nontrivial = true
			}
			if rapid.IntRange(0, 5).Draw(rt, "omit") == 0 {
				continue
			}
			val := gen.ConformingValue(rt, vs, ty, 3)
			if defect == "" && rapid.IntRange(0, 2).Draw(rt, "damage") == 0 {
				d := rapid.SampledFrom(gen.VarDefects).Draw(rt, "defect")
				if dv, ok := gen.InjectDefect(rt, vs, ty, val, d); ok {
					val, defect = dv, d
					nontrivial = true
				}
			}
			vars[name] = val
		}
		c := c14Case{Schema: vc.Schema, Query: vc.Query, Vars: encodeGo(vars), Defect: defect}
		r.Begin("vars", func() interface{} { return c })
		defer r.End()
		v, known, accepted := c14Eval(c)
		for _, k := range known {
			r.Known(k)
		}
		key, _ := json.Marshal(c)
		r.Case(nontrivial, string(key))
		if defect != "" {
			r.Class("defect:" + defect)
			if accepted {
				r.Class("defect-accepted:" + defect)
			}
		} else if accepted {
			r.Class("conforming:accepted")
		} else {
			r.Class("conforming:rejected(statistic only)")
		}
		if r.WantSample("vars") {
			r.Sample("vars", c)
		}
		if v != "" {
			r.Failf(rt, "vars", c, "%s", v)
		}
	})
}

var c14Corpus = []struct {
	typ string
	val interface{}
}{
	{"[[Int]]", []interface{}{nil}}, {"[[Int]]", []interface{}{1, 2}}, {"[[Int]]", 1}, {"[[Int]]", []interface{}{[]interface{}{1}, nil}}, {"[[Int!]!]!", []interface{}{[]interface{}{nil}}},
	{"Color", "red"}, {"Color", "RED"}, {"Color!", "Red"}, {"[Color]", []string{"RED", "green"}}, {"Color", 1}, {"Color", true},
	{"Int", json.Number("1.5")}, {"Int", json.Number("12")}, {"Int", "12"}, {"Int", "1.5"}, {"Int", 1.5}, {"Int", true}, {"Float", "abc"}, {"Float", json.Number("1e3")},
	{"Node", map[string]interface{}{"id": 1, "child": map[string]interface{}{"id": nil}}}, {"Node", map[string]interface{}{"id": "x", "leaves": []interface{}{nil}}},
	{"Node", map[string]interface{}{"id": "x", "tags": []interface{}{"a"}}}, {"Node", map[string]interface{}{"id": "x", "tags": []interface{}{[]interface{}{"a", nil}, nil}}},
	{"Node", map[string]interface{}{"id": "x", "leaves": map[string]interface{}{"s": "one"}}}, {"Node!", nil}, {"[Node!]", []map[string]interface{}{{"id": 1}}}, {"[Int!]", []int{1, 2}}, {"[Int!]!", []interface{}{nil}},
	{"Pick", map[string]interface{}{"a": 1, "b": "x"}}, {"Date", map[string]interface{}{"anything": []interface{}{1}}}, {"[Date!]", []interface{}{nil}}, {"[[[Int]]]", []interface{}{[]interface{}{[]interface{}{nil, 1}}}},
}
