package checks

import (
	"fmt"
	"sort"
	"strings"

	"github.com/vektah/gqlparser/v2"
	"github.com/vektah/gqlparser/v2/ast"
	"github.com/vektah/gqlparser/v2/gqlerror"

	"verif/harness/kit"
	"verif/harness/proj"
	"verif/harness/ref"
)

type srcText struct {
	Name  string `json:"name"`
	Input string `json:"input"`
}

type schemaCase struct {
	Sources []srcText `json:"sources"`
	Fault   string    `json:"fault,omitempty"`
	Rule    string    `json:"rule,omitempty"`
}

func (c schemaCase) key() string {
	var sb strings.Builder
	for _, s := range c.Sources {
		sb.WriteString(s.Name)
		sb.WriteByte(0)
		sb.WriteString(s.Input)
		sb.WriteByte(0)
	}
	return sb.String()
}

func (c schemaCase) astSources() []*ast.Source {
	var out []*ast.Source
	for _, s := range c.Sources {
		out = append(out, &ast.Source{Name: s.Name, Input: s.Input})
	}
	return out
}

type libLoad struct {
	schema *ast.Schema
	err    error
	gerr   *gqlerror.Error
	panic  *kit.Panic
}

func loadLib(c schemaCase) (l libLoad) {
	l.panic = kit.Safely(func() {
		s, err := gqlparser.LoadSchema(c.astSources()...)
		l.schema = s
		if err != nil {
			l.err = err
			l.gerr, _ = err.(*gqlerror.Error)
		}
	})
	return
}

type refLoad struct {
	parsed      bool
	docs        []*ref.SchemaDoc
	schema      *ref.Schema
	viol        []ref.Violation
	unsupported string
}

// loadRef evaluates the reference verdict for the sources under the given validation options.
func loadRef(c schemaCase, vo ref.ValidateOpts) (r refLoad) {
	for _, s := range c.Sources {
		lr := ref.Lex([]rune(s.Input), ref.LexOpts{})
		if !lr.OK {
			return
		}
		d, fail := ref.ParseSchema(ref.StripComments(lr.Toks), ref.ParseOpts{AllowEmpty: true, EnumValueAnyName: true})
		if fail >= 0 {
			return
		}
		r.docs = append(r.docs, d)
	}
	r.parsed = true
	m, viol, unsup := ref.Merge(r.docs...)
	r.schema = m
	r.unsupported = string(unsup)
	if unsup != "" {
		return
	}
	r.viol = append(viol, m.Validate(vo)...)
	return
}

func schemaValidateOptsOpen(prop string) ref.ValidateOpts {
	return ref.ValidateOpts{ArgTypeCompatibleNotIdentical: kit.KFOpen(prop, "interface-arg-nullability")}
}

func violRules(vs []ref.Violation) string {
	seen := map[string]bool{}
	var out []string
	for _, v := range vs {
		if !seen[v.Rule] {
			seen[v.Rule] = true
			out = append(out, v.Rule)
		}
	}
	sort.Strings(out)
	return strings.Join(out, ",")
}

// checkSchemaVerdict compares the library's verdict with the reference. skip=true when the
// case is outside the domain (does not parse per the reference, or unsupported region).
func checkSchemaVerdict(prop string, c schemaCase) (viol string, known []string, skip bool, lib libLoad, rl refLoad) {
	lib = loadLib(c)
	rl = loadRef(c, ref.ValidateOpts{})
	if !rl.parsed || rl.unsupported != "" {
		if lib.panic != nil {
			return "LoadSchema panicked: " + lib.panic.Value + " at " + lib.panic.Site, nil, false, lib, rl
		}
		return "", nil, true, lib, rl
	}
	if lib.panic != nil {
		return "LoadSchema panicked: " + lib.panic.Value + " at " + lib.panic.Site, nil, false, lib, rl
	}
	wantOK := len(rl.viol) == 0
	gotOK := lib.err == nil
	if wantOK == gotOK {
		return "", nil, false, lib, rl
	}
	msg := ""
	if wantOK {
		msg = fmt.Sprintf("type system satisfies every rule but loading fails: %v", lib.err)
	} else {
		msg = fmt.Sprintf("type system violates %s (%s) but loads", violRules(rl.viol), rl.viol[0].Msg)
	}
	vo := schemaValidateOptsOpen(prop)
	if vo != (ref.ValidateOpts{}) {
		r2 := loadRef(c, vo)
		if (len(r2.viol) == 0) == gotOK {
			return "", []string{"interface-arg-nullability"}, false, lib, rl
		}
	}
	return msg, nil, false, lib, rl
}

// ---------------------------------------------------------------- graph checks

func typeDefForCompare(d *ref.TypeDef) *ref.TypeDef {
	c := *d
	return &c
}

// checkSchemaGraph validates a schema returned by the library against the merged model.
func checkSchemaGraph(s *ast.Schema, m *ref.Schema) string {
	if s == nil {
		return "LoadSchema returned neither schema nor error"
	}
	// types
	for _, n := range m.TypeOrder {
		want := m.Types[n]
		got := s.Types[n]
		if got == nil {
			return "type " + n + " is missing from Schema.Types"
		}
		if got.Name != n {
			return fmt.Sprintf("Schema.Types[%q].Name is %q", n, got.Name)
		}
		w := typeDefForCompare(want)
		if n == m.Query {
			w.Fields = append(append([]*ref.FieldDef{}, w.Fields...),
				&ref.FieldDef{Name: "__schema", Type: &ref.Type{Name: "__Schema", NonNull: true}},
				&ref.FieldDef{Name: "__type", Type: &ref.Type{Name: "__Type"}, Args: []*ref.ArgDef{{Name: "name", Type: &ref.Type{Name: "String", NonNull: true}}}})
		}
		g := proj.TypeDef(got)
		if !sameTree(w, g) {
			return fmt.Sprintf("type %s differs from the merged definitions: %s", n, treeDiff(w, g))
		}
		if got.BuiltIn != m.BuiltIn[n] {
			return fmt.Sprintf("type %s: BuiltIn=%v", n, got.BuiltIn)
		}
	}
	for n := range s.Types {
		if m.Types[n] == nil {
			return "Schema.Types has an entry " + n + " that no definition introduces"
		}
	}
	// every reference resolves (closure as a post-condition on the object graph itself)
	for n, d := range s.Types {
		for _, f := range d.Fields {
			if s.Types[f.Type.Name()] == nil {
				return fmt.Sprintf("field %s.%s refers to %s which is not in Schema.Types", n, f.Name, f.Type.Name())
			}
			for _, a := range f.Arguments {
				if s.Types[a.Type.Name()] == nil {
					return fmt.Sprintf("argument %s.%s(%s) refers to %s which is not in Schema.Types", n, f.Name, a.Name, a.Type.Name())
				}
			}
		}
		for _, in := range d.Interfaces {
			if t := s.Types[in]; t == nil || t.Kind != ast.Interface {
				return fmt.Sprintf("%s implements %s which is not an interface of the schema", n, in)
			}
		}
		for _, u := range d.Types {
			if t := s.Types[u]; t == nil || t.Kind != ast.Object {
				return fmt.Sprintf("union %s has member %s which is not an object of the schema", n, u)
			}
		}
	}
	// directives
	for n, want := range m.Directives {
		got := s.Directives[n]
		if got == nil {
			return "directive @" + n + " is missing from Schema.Directives"
		}
		if g := proj.DirectiveDef(got); !sameTree(want, g) {
			return fmt.Sprintf("directive @%s differs: %s", n, treeDiff(want, g))
		}
	}
	for n := range s.Directives {
		if m.Directives[n] == nil {
			return "Schema.Directives has an entry @" + n + " that no definition introduces"
		}
	}
	// built-ins
	for _, n := range ref.BuiltinScalars {
		if t := s.Types[n]; t == nil || t.Kind != ast.Scalar {
			return "built-in scalar " + n + " missing"
		}
	}
	for _, n := range ref.IntrospectionTypes {
		if s.Types[n] == nil {
			return "introspection type " + n + " missing"
		}
	}
	for _, n := range ref.BuiltinDirectives {
		if s.Directives[n] == nil {
			return "built-in directive @" + n + " missing"
		}
	}
	// roots
	root := func(label string, got *ast.Definition, want string) string {
		if want == "" {
			if got != nil {
				return fmt.Sprintf("schema has a %s root %s but none is declared or inferable", label, got.Name)
			}
			return ""
		}
		if got == nil {
			return fmt.Sprintf("%s root type %s is not set", label, want)
		}
		if got != s.Types[want] {
			return fmt.Sprintf("%s root is %s (not the entry Schema.Types[%q])", label, got.Name, want)
		}
		return ""
	}
	if v := root("query", s.Query, m.Query); v != "" {
		return v
	}
	if v := root("mutation", s.Mutation, m.Mutation); v != "" {
		return v
	}
	if v := root("subscription", s.Subscription, m.Subscription); v != "" {
		return v
	}
	if s.Query != nil {
		f := s.Query.Fields.ForName("__schema")
		if f == nil || f.Type.String() != "__Schema!" {
			return "query root does not expose __schema: __Schema!"
		}
		f = s.Query.Fields.ForName("__type")
		if f == nil || f.Type.String() != "__Type" || len(f.Arguments) != 1 || f.Arguments[0].Name != "name" || f.Arguments[0].Type.String() != "String!" {
			return "query root does not expose __type(name: String!): __Type"
		}
	}
	if s.Description != m.Desc {
		return fmt.Sprintf("schema description %q, written %q", s.Description, m.Desc)
	}
	if g := proj.Directives(s.SchemaDirectives); !sameTree(m.SchemaDirectives, g) {
		return "schema directives differ: " + treeDiff(m.SchemaDirectives, g)
	}
	// relations
	names := func(l []*ast.Definition) ([]string, string) {
		var out []string
		for _, d := range l {
			if d == nil {
				return nil, "nil entry"
			}
			if s.Types[d.Name] != d {
				return nil, "entry " + d.Name + " is not the definition in Schema.Types"
			}
			out = append(out, d.Name)
		}
		sort.Strings(out)
		return out, ""
	}
	uniq := func(l []string) []string {
		var out []string
		for i, x := range l {
			if i == 0 || l[i-1] != x {
				out = append(out, x)
			}
		}
		return out
	}
	for _, n := range m.TypeOrder {
		t := m.Types[n]
		pt, bad := names(s.PossibleTypes[n])
		if bad != "" {
			return fmt.Sprintf("PossibleTypes[%s]: %s", n, bad)
		}
		pt = uniq(pt)
		switch t.Kind {
		case "OBJECT":
			if strings.Join(pt, ",") != n {
				return fmt.Sprintf("PossibleTypes[%s] = %v, want [%s]", n, pt, n)
			}
		case "UNION", "INTERFACE":
			var objs []string
			for _, x := range pt {
				xt := m.Types[x]
				if xt.Kind == "OBJECT" {
					objs = append(objs, x)
				} else if !(t.Kind == "INTERFACE" && xt.Kind == "INTERFACE" && containsStr(xt.Interfaces, n)) {
					return fmt.Sprintf("PossibleTypes[%s] contains %s %s which does not declare it", n, xt.Kind, x)
				}
			}
			want := m.PossibleObjects(n)
			if strings.Join(objs, ",") != strings.Join(want, ",") {
				return fmt.Sprintf("PossibleTypes[%s] has objects %v, definitions imply %v", n, objs, want)
			}
			if t.Kind == "INTERFACE" {
				// interfaces that declare n must be listed too (fragment spreading relies on it)
				for _, x := range m.TypeOrder {
					if xt := m.Types[x]; xt.Kind == "INTERFACE" && containsStr(xt.Interfaces, n) && !containsStr(pt, x) {
						return fmt.Sprintf("PossibleTypes[%s] lacks interface %s which declares it", n, x)
					}
				}
			}
		}
		im, bad := names(s.Implements[n])
		if bad != "" {
			return fmt.Sprintf("Implements[%s]: %s", n, bad)
		}
		im = uniq(im)
		if t.Kind == "OBJECT" || t.Kind == "INTERFACE" {
			want := append([]string{}, t.Interfaces...)
			if t.Kind == "OBJECT" {
				for _, u := range m.TypeOrder {
					if ut := m.Types[u]; ut.Kind == "UNION" && containsStr(ut.Types, n) {
						want = append(want, u)
					}
				}
			}
			sort.Strings(want)
			want = uniq(want)
			if strings.Join(im, ",") != strings.Join(want, ",") {
				return fmt.Sprintf("Implements[%s] = %v, definitions imply %v", n, im, want)
			}
		}
	}
	for n := range s.PossibleTypes {
		if m.Types[n] == nil {
			return "PossibleTypes has key " + n + " which is not a type"
		}
	}
	for n := range s.Implements {
		if m.Types[n] == nil {
			return "Implements has key " + n + " which is not a type"
		}
	}
	return ""
}

func containsStr(l []string, s string) bool {
	for _, x := range l {
		if x == s {
			return true
		}
	}
	return false
}
