package checks

// Native coverage-guided fuzz targets (thorough tier only). Each target carries the semantic
// oracle of its property, not just crash detection; known findings are handled by the same
// relaxations as in the rapid checks so that a campaign is not stopped by them.

import (
	"encoding/json"
	"strings"
	"testing"
	"unicode/utf8"

	"verif/harness/gen"
)

func fuzzSeeds(f *testing.F, two bool) {
	add := func(s string) {
		if two {
			f.Add(c02Schema, s)
		} else {
			f.Add(s)
		}
	}
	for _, s := range repoSeeds() {
		if len(s) < 400 {
			add(s)
		}
	}
	for _, pool := range gen.SoupPools() {
		for _, s := range pool {
			add(s)
		}
	}
	for _, s := range c03Corpus {
		add(s)
	}
	for _, s := range c05NearMisses {
		add(s)
	}
	for _, s := range c06NearMisses {
		add(s)
	}
	for _, s := range c04Corpus {
		add(s)
	}
	for _, s := range c12Corpus {
		add(s)
	}
	for _, s := range c08Corpus {
		add(s)
	}
	if two {
		for _, s := range repoGraphQLFiles() {
			if len(s) < 3000 {
				f.Add(s, "{ __typename }")
			}
		}
		for _, c := range c02Corpus {
			f.Add(c.Schema, c.Query)
		}
		for _, s := range c07Corpus {
			f.Add(s, "{ a }")
		}
		for _, q := range c08Corpus {
			f.Add(c08Schema, q)
		}
	}
}

func FuzzC01(f *testing.F) {
	fuzzSeeds(f, false)
	f.Fuzz(func(t *testing.T, in string) {
		if len(in) > 1<<16 {
			return
		}
		if v, _ := c01Eval(in); v != "" {
			t.Fatalf("VIOLATION property=C01: %s\ninput: %q", v, in)
		}
	})
}

func FuzzC02(f *testing.F) {
	fuzzSeeds(f, true)
	f.Fuzz(func(t *testing.T, schema, query string) {
		if len(schema) > 4096 || len(query) > 2048 {
			return
		}
		if v, _ := c02Eval(valCase{Schema: schema, Query: query}); v != "" {
			t.Fatalf("VIOLATION property=C02: %s\nschema: %q\nquery: %q", v, schema, query)
		}
	})
}

func FuzzC03(f *testing.F) {
	fuzzSeeds(f, false)
	f.Fuzz(func(t *testing.T, in string) {
		if !utf8.ValidString(in) || len(in) > 4096 {
			return
		}
		if v, _, _ := checkLexConformance("C03", in); v != "" {
			t.Fatalf("VIOLATION property=C03: %s\ninput: %q", v, in)
		}
	})
}

func FuzzC04(f *testing.F) {
	fuzzSeeds(f, false)
	f.Fuzz(func(t *testing.T, in string) {
		if !utf8.ValidString(in) || len(in) > 4096 {
			return
		}
		for _, schema := range []bool{false, true} {
			if v, _ := c04Eval(c04Case{Sources: []c04Source{{"f0", in}}, Schema: schema}); v != "" {
				t.Fatalf("VIOLATION property=C04: %s\ninput: %q", v, in)
			}
		}
	})
}

func FuzzC05(f *testing.F) {
	fuzzSeeds(f, false)
	f.Fuzz(func(t *testing.T, in string) {
		if !utf8.ValidString(in) || len(in) > 2048 {
			return
		}
		if v, _, _ := checkParse("C05", in, false); v != "" {
			t.Fatalf("VIOLATION property=C05: %s\ninput: %q", v, in)
		}
	})
}

func FuzzC06(f *testing.F) {
	fuzzSeeds(f, false)
	f.Fuzz(func(t *testing.T, in string) {
		if !utf8.ValidString(in) || len(in) > 2048 {
			return
		}
		if v, _, _ := checkParse("C06", in, true); v != "" {
			t.Fatalf("VIOLATION property=C06: %s\ninput: %q", v, in)
		}
	})
}

func FuzzC12(f *testing.F) {
	fuzzSeeds(f, false)
	cfgs := []fmtConfig{{DefaultInd: true}, {Indent: "", Comments: true, Compacted: true}, {Indent: " \t", Comments: true}}
	f.Fuzz(func(t *testing.T, in string) {
		if !utf8.ValidString(in) || len(in) > 2048 || strings.Count(in, "{") > 200 {
			return
		}
		for _, cfg := range cfgs {
			if v, _ := c12Eval(c12Case{Input: in, Config: cfg}); v != "" {
				t.Fatalf("VIOLATION property=C12: %s\ninput: %q config: %+v", v, in, cfg)
			}
		}
	})
}

func FuzzC16(f *testing.F) {
	fuzzSeeds(f, false)
	f.Fuzz(func(t *testing.T, in string) {
		if !utf8.ValidString(in) || len(in) > 300 {
			return
		}
		for _, schema := range []bool{false, true} {
			if v, _, _ := c16Eval(c16Case{Input: in, Schema: schema}); v != "" {
				t.Fatalf("VIOLATION property=C16: %s\ninput: %q schema=%v", v, in, schema)
			}
		}
	})
}

// FuzzC08: arbitrary query text against a fixed rich schema; the verdict must equal the reference
// validator's (documents outside its domain are skipped by checkVerdict / the guards below).
func FuzzC08(f *testing.F) {
	for _, q := range c08Corpus {
		f.Add(q)
	}
	for _, q := range c10Corpus {
		f.Add(q)
	}
	for _, s := range repoSeeds() {
		if len(s) < 300 {
			f.Add(s)
		}
	}
	f.Fuzz(func(t *testing.T, q string) {
		if !utf8.ValidString(q) || len(q) > 600 || strings.Count(q, "...") > 12 || strings.Count(q, "{") > 40 {
			return
		}
		// outside the generated domain of the reference (see TestC08's assumptions)
		if strings.Contains(q, "subscription") && (strings.Contains(q, "@skip") || strings.Contains(q, "@include")) {
			return
		}
		c := valCase{Schema: c08Schema, Query: q}
		if fragmentHasVariableDefinitions(q) {
			return
		}
		v, _, skip, _, _ := checkVerdict("C08", c)
		if !skip && v != "" {
			t.Fatalf("VIOLATION property=C08: %s\nquery: %q", v, q)
		}
	})
}

// fragmentHasVariableDefinitions: the document uses the experimental `fragment F($v: T) on ...` form.
func fragmentHasVariableDefinitions(q string) bool {
	r := refParseCase(valCase{Schema: c08Schema, Query: q})
	if !r.ok {
		return false
	}
	for _, f := range r.doc.Frags {
		if len(f.Vars) > 0 {
			return true
		}
	}
	return false
}

// FuzzC09: links on arbitrary queries that pass validation against the fixed schema.
func FuzzC09(f *testing.F) {
	for _, q := range c08Corpus {
		f.Add(q)
	}
	f.Fuzz(func(t *testing.T, q string) {
		if !utf8.ValidString(q) || len(q) > 600 || strings.Count(q, "{") > 40 {
			return
		}
		for _, mode := range []string{"", "walk", "0,5,13"} {
			if v, _, _ := c09Eval(c09Case{valCase: valCase{Schema: c08Schema, Query: q}, Mode: mode}); v != "" {
				t.Fatalf("VIOLATION property=C09: %s\nquery: %q", v, q)
			}
		}
	})
}

func FuzzC13(f *testing.F) {
	fuzzSeeds(f, false)
	for _, s := range repoGraphQLFiles() {
		if len(s) < 3000 {
			f.Add(s)
		}
	}
	cfgs := []fmtConfig{{DefaultInd: true}, {Indent: "", Comments: true, Compacted: true}, {Indent: " \t", Comments: true, NoDesc: true}}
	f.Fuzz(func(t *testing.T, in string) {
		if !utf8.ValidString(in) || len(in) > 2048 || strings.Count(in, "{") > 200 {
			return
		}
		for _, cfg := range cfgs {
			if v := c13DocEval(c13DocCase{Input: in, Config: cfg}); v != "" {
				t.Fatalf("VIOLATION property=C13: %s\ninput: %q config: %+v", v, in, cfg)
			}
		}
	})
}

func FuzzC19(f *testing.F) {
	fuzzSeeds(f, false)
	f.Fuzz(func(t *testing.T, in string) {
		if !utf8.ValidString(in) || len(in) > 2048 || strings.Count(in, "{") > 200 {
			return
		}
		if v, _ := c19Eval(in); v != "" {
			t.Fatalf("VIOLATION property=C19: %s\ninput: %q", v, in)
		}
	})
}

// FuzzC07: arbitrary SDL; the load verdict must equal the reference validator's wherever the
// reference is defined (unsupported regions and unparsable text are skipped by checkSchemaVerdict).
func FuzzC07(f *testing.F) {
	for _, s := range c07Corpus {
		f.Add(s)
	}
	for _, s := range repoGraphQLFiles() {
		if len(s) < 2000 {
			f.Add(s)
		}
	}
	for _, s := range c13Corpus {
		f.Add(s)
	}
	f.Fuzz(func(t *testing.T, in string) {
		if !utf8.ValidString(in) || len(in) > 1500 || strings.Count(in, "{") > 60 {
			return
		}
		if v, skip, _ := c07Eval(nil, schemaCase{Sources: []srcText{{"s.graphql", in}}}); !skip && v != "" {
			t.Fatalf("VIOLATION property=C07: %s\nschema: %q", v, in)
		}
	})
}

// FuzzC10: the same (schema, query) texts validated in fresh runs and re-validated.
func FuzzC10(f *testing.F) {
	for _, q := range append(append([]string{}, c10Corpus...), c08Corpus...) {
		f.Add(q)
	}
	f.Fuzz(func(t *testing.T, q string) {
		if !utf8.ValidString(q) || len(q) > 500 || strings.Count(q, "{") > 40 || strings.Count(q, "...") > 10 {
			return
		}
		for _, schema := range []string{c10Schema, c08Schema} {
			if v, _, _, _ := c10EvalK(valCase{Schema: schema, Query: q}, 4); v != "" {
				t.Fatalf("VIOLATION property=C10: %s\nquery: %q", v, q)
			}
		}
	})
}

// FuzzC20: every error any entry point returns for the text has the required shape.
func FuzzC20(f *testing.F) {
	fuzzSeeds(f, false)
	f.Fuzz(func(t *testing.T, in string) {
		if len(in) > 1024 || strings.Count(in, "{") > 60 {
			return
		}
		cases := []c20Case{
			{Kind: "lex", Sources: []srcText{{"l.graphql", in}}}, {Kind: "query", Sources: []srcText{{"q.graphql", in}}}, {Kind: "query", Sources: []srcText{{"", in}}, Limit: 7},
			{Kind: "schema", Sources: []srcText{{"a.graphql", in}}, Limit: 9}, {Kind: "load", Sources: []srcText{{"a.graphql", in}}},
			{Kind: "validate", Schema: c08Schema, Query: in, QName: "q.graphql"}, {Kind: "validate", Schema: c08Schema, Query: in},
		}
		for _, c := range cases {
			if v, _ := c20Eval(c); v != "" {
				t.Fatalf("VIOLATION property=C20: %s\ncase: %+v", v, c)
			}
		}
	})
}

// FuzzC14: a variable type and a JSON variables object, decoded with and without UseNumber;
// coercion must be total and conforming (same oracle as TestC14).
func FuzzC14(f *testing.F) {
	types := []string{"Int", "Int!", "[Int!]", "Float", "String", "ID!", "Boolean", "Color!", "[Color]", "Leaf", "Node!", "[[Leaf]]!", "[Node!]!", "Pick", "[Pick!]", "Date", "[[[Int]]]", "[[String!]!]"}
	jsons := []string{`{"v0": 1}`, `{"v0": [1, null]}`, `{"v0": {"id": "x", "leaf": {"s": "y", "i": 2}, "tags": [["a"], null]}}`, `{"v0": {"a": 1}}`, `{"v0": {"a": 1, "b": "x"}}`, `{"v0": "RED"}`, `{}`,
		`{"v0": null}`, `{"v0": 1.5}`, `{"v0": {"__typename": "x", "id": 1}}`, `{"v0": [[{"s": "a"}]]}`, `{"v0": "1"}`, `{"v0": 1e3}`, `{"v0": 99999999999999999999}`, `{"v0": true}`, `{"v0": [[1], 2]}`, `{"v0": {"id": "n", "child": {"id": "m", "e": "red"}}}`}
	for i, ty := range types {
		f.Add(ty, jsons[i%len(jsons)], i%2 == 0)
		f.Add(ty, jsons[(i*7+3)%len(jsons)], i%2 == 1)
	}
	f.Fuzz(func(t *testing.T, typ, vars string, useNumber bool) {
		if len(typ) > 40 || len(vars) > 600 || !utf8.ValidString(typ) || strings.ContainsAny(typ, "){}$@\"#") {
			return
		}
		dec := json.NewDecoder(strings.NewReader(vars))
		if useNumber {
			dec.UseNumber()
		}
		var v interface{}
		if err := dec.Decode(&v); err != nil {
			return
		}
		m, ok := v.(map[string]interface{})
		if !ok {
			return
		}
		c := c14Case{Schema: gen.VarsSchemaTypes + "type Query { probe(p0: " + typ + "): Int }", Query: "query Q($v0: " + typ + ") { probe(p0: $v0) }", Vars: encodeGo(m)}
		if viol, _, _ := c14Eval(c); viol != "" {
			t.Fatalf("VIOLATION property=C14: %s\ntype: %s vars: %s useNumber=%v", viol, typ, vars, useNumber)
		}
	})
}

// FuzzC15: a query against the fixed schema and a JSON variables object (used for every
// operation); argument maps of every field and directive against the reference resolver.
func FuzzC15(f *testing.F) {
	qs := []string{`query ($v: Int = 3, $w: [Int]) { a(i: $v, l: $w, ll: [[1], $w]) { n } }`, `query ($c: Color, $f: Filter) { a(c: $c, filter: $f) { n } x: a(filter: {limit: 1, color: $c, nested: $f}) { n } }`,
		`query ($j: JSON, $b: Boolean = true) { a(j: {k: [$j, 1]}, b: $b) @include(if: $b) { n @skip(if: $b) } }`, `query ($v: Int) { a(nn: $v) { n } ...F } fragment F on Query { a(i: $v) { s } }`,
		`query ($c: Choice, $i: Int!) { a(choice: $c) { n } y: a(choice: {a: $i}) { n } }`, `{ a(f: 1, id: 2, s: "x", l: 1, ll: 2) { n } node(id: 1) { id } }`}
	vs := []string{`{}`, `{"v": null, "w": [1, null]}`, `{"v": 7}`, `{"c": "RED", "f": {"limit": 2, "tags": ["a"]}}`, `{"j": {"x": [1, 2]}, "b": false}`, `{"c": {"a": 1}, "i": 5}`, `{"f": {"limit": 1, "nested": {"limit": 2}}}`}
	for i, q := range qs {
		for j, v := range vs {
			if (i+j)%2 == 0 {
				f.Add(q, v)
			}
		}
	}
	f.Fuzz(func(t *testing.T, q, vars string) {
		if len(q) > 500 || len(vars) > 400 || !utf8.ValidString(q) || strings.Count(q, "{") > 40 {
			return
		}
		var v interface{}
		dec := json.NewDecoder(strings.NewReader(vars))
		dec.UseNumber()
		if err := dec.Decode(&v); err != nil {
			return
		}
		m, ok := v.(map[string]interface{})
		if !ok {
			return
		}
		e := encodeGo(m)
		if viol, _, _, _ := c15Eval(c15Case{Schema: c08Schema, Query: q, Vars: []interface{}{e, e, e}}); viol != "" {
			t.Fatalf("VIOLATION property=C15: %s\nquery: %q vars: %s", viol, q, vars)
		}
	})
}
