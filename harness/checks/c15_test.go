package checks

import (
	"encoding/json"
	"fmt"
	"reflect"
	"sort"
	"strconv"
	"strings"
	"testing"

	"github.com/vektah/gqlparser/v2"
	"github.com/vektah/gqlparser/v2/ast"
	"github.com/vektah/gqlparser/v2/validator"
	"pgregory.net/rapid"

	"verif/harness/gen"
	"verif/harness/kit"
	"verif/harness/ref"
)

// C15 — argument resolution is total and follows literal > variable > default order.

type c15Case struct {
	Schema string `json:"schema"`
	Query  string `json:"query"`
	// Vars per operation index, encoded with encodeGo
	Vars []interface{} `json:"vars"`
}

// convertLiteral is the reference conversion of a literal to Go values.
func convertLiteral(v *ast.Value, vars map[string]interface{}) interface{} {
	if v == nil {
		return nil
	}
	switch v.Kind {
	case ast.Variable:
		if val, ok := vars[v.Raw]; ok {
			return val
		}
		if v.VariableDefinition != nil && v.VariableDefinition.DefaultValue != nil {
			return convertLiteral(v.VariableDefinition.DefaultValue, vars)
		}
		return nil
	case ast.IntValue:
		n, err := strconv.ParseInt(v.Raw, 10, 64)
		if err != nil {
			return "unrepresentable:" + v.Raw
		}
		return n
	case ast.FloatValue:
		f, err := strconv.ParseFloat(v.Raw, 64)
		if err != nil {
			return "unrepresentable:" + v.Raw
		}
		return f
	case ast.StringValue, ast.BlockValue, ast.EnumValue:
		return v.Raw
	case ast.BooleanValue:
		return v.Raw == "true"
	case ast.NullValue:
		return nil
	case ast.ListValue:
		out := []interface{}{}
		for _, c := range v.Children {
			out = append(out, convertLiteral(c.Value, vars))
		}
		return out
	case ast.ObjectValue:
		out := map[string]interface{}{}
		for _, c := range v.Children {
			out[c.Name] = convertLiteral(c.Value, vars)
		}
		return out
	}
	return nil
}

// expectedArgs is O7: literal > supplied variable > (variable default, already in vars) > argument default > absent.
func expectedArgs(defs ast.ArgumentDefinitionList, args ast.ArgumentList, vars map[string]interface{}) map[string]interface{} {
	out := map[string]interface{}{}
	for _, d := range defs {
		var arg *ast.Argument
		for _, a := range args {
			if a.Name == d.Name && arg == nil {
				arg = a
			}
		}
		if arg != nil {
			if arg.Value.Kind == ast.Variable {
				if val, ok := vars[arg.Value.Raw]; ok {
					out[d.Name] = val
					continue
				}
			} else {
				out[d.Name] = convertLiteral(arg.Value, vars)
				continue
			}
		}
		if d.DefaultValue != nil {
			out[d.Name] = convertLiteral(d.DefaultValue, vars)
		}
	}
	return out
}

// normGo maps Go integer kinds to int64, floats to float64, nil slices/maps to empty ones.
func normGo(v interface{}) interface{} {
	if v == nil {
		return nil
	}
	rv := reflect.ValueOf(v)
	switch rv.Kind() {
	case reflect.Int, reflect.Int8, reflect.Int16, reflect.Int32, reflect.Int64:
		return rv.Int()
	case reflect.Float32, reflect.Float64:
		return rv.Float()
	case reflect.Slice:
		out := []interface{}{}
		for i := 0; i < rv.Len(); i++ {
			out = append(out, normGo(rv.Index(i).Interface()))
		}
		return out
	case reflect.Map:
		out := map[string]interface{}{}
		for _, k := range rv.MapKeys() {
			out[k.String()] = normGo(rv.MapIndex(k).Interface())
		}
		return out
	case reflect.String:
		return rv.String()
	}
	return v
}

func sameArgs(a, b map[string]interface{}) (bool, string) {
	na, nb := normGo(a), normGo(b)
	if reflect.DeepEqual(na, nb) {
		return true, ""
	}
	ja, _ := json.Marshal(na)
	jb, _ := json.Marshal(nb)
	return false, fmt.Sprintf("expected %s, got %s", ja, jb)
}

type argWalker struct {
	vars    map[string]interface{}
	d       *ast.QueryDocument
	visited map[string]bool
	n       int
	classes map[string]int
	known   []string
}

// unrepresentableOnlyInCustomScalars: every number literal of the arguments (or of the defaults of
// omitted arguments) that strconv cannot convert sits in a custom-scalar position, the only place
// where validation lets one through (recorded finding argmap-number-out-of-range-panic). In a
// position typed Int, Float or ID validation must have rejected it, so a panic there is not excused.
func unrepresentableOnlyInCustomScalars(defs ast.ArgumentDefinitionList, args ast.ArgumentList) bool {
	bad := func(v *ast.Value) bool {
		switch v.Kind {
		case ast.IntValue:
			_, err := strconv.ParseInt(v.Raw, 10, 64)
			return err != nil
		case ast.FloatValue:
			_, err := strconv.ParseFloat(v.Raw, 64)
			return err != nil
		}
		return false
	}
	ok := true
	var walk func(v *ast.Value, inCustom bool)
	walk = func(v *ast.Value, inCustom bool) {
		if v == nil {
			return
		}
		if v.Definition != nil {
			inCustom = isCustomScalarDef(v.Definition)
		}
		if bad(v) && !inCustom {
			ok = false
		}
		for _, c := range v.Children {
			walk(c.Value, inCustom)
		}
		if v.Kind == ast.Variable && v.VariableDefinition != nil && v.VariableDefinition.DefaultValue != nil {
			walk(v.VariableDefinition.DefaultValue, isCustomScalarDef(v.VariableDefinition.Definition))
		}
	}
	for _, d := range defs {
		if a := args.ForName(d.Name); a != nil {
			walk(a.Value, false)
		} else if d.DefaultValue != nil {
			// defaults of the schema are not annotated: judged by the argument's declared type
			var w2 func(v *ast.Value)
			w2 = func(v *ast.Value) {
				if bad(v) {
					switch d.Type.Name() {
					case "Int", "Float", "ID", "String", "Boolean":
						ok = false
					}
				}
				for _, c := range v.Children {
					w2(c.Value)
				}
			}
			w2(d.DefaultValue)
		}
	}
	return ok
}

func literalHasUnrepresentable(v interface{}) bool {
	switch x := v.(type) {
	case string:
		return strings.HasPrefix(x, "unrepresentable:")
	case []interface{}:
		for _, i := range x {
			if literalHasUnrepresentable(i) {
				return true
			}
		}
	case map[string]interface{}:
		for _, i := range x {
			if literalHasUnrepresentable(i) {
				return true
			}
		}
	}
	return false
}

func (w *argWalker) check(where string, defs ast.ArgumentDefinitionList, args ast.ArgumentList, call func() map[string]interface{}) string {
	if len(defs) == 0 && len(args) == 0 {
		return ""
	}
	w.n++
	want := expectedArgs(defs, args, w.vars)
	var got map[string]interface{}
	if p := kit.Safely(func() { got = call() }); p != nil {
		if kit.KFOpen("C15", "argmap-number-out-of-range-panic") && literalHasUnrepresentable(want) && strings.Contains(p.Value, "out of range") && unrepresentableOnlyInCustomScalars(defs, args) {
			w.known = append(w.known, "argmap-number-out-of-range-panic")
			return ""
		}
		return fmt.Sprintf("%s: ArgumentMap panicked: %s at %s", where, p.Value, p.Site)
	}
	if got == nil {
		return where + ": ArgumentMap returned nil"
	}
	for _, d := range defs {
		a := args.ForName(d.Name)
		switch {
		case a == nil && d.DefaultValue != nil:
			w.classes["omitted-with-default"]++
		case a == nil:
			w.classes["omitted-without-default"]++
		case a.Value.Kind == ast.Variable:
			if _, ok := w.vars[a.Value.Raw]; ok {
				w.classes["top-level-variable"]++
			} else {
				w.classes["top-level-variable-absent"]++
			}
		case a.Value.Kind == ast.NullValue:
			w.classes["explicit-null"]++
		default:
			w.classes["literal"]++
			if strings.Contains(a.Value.String(), "$") {
				w.classes["nested-variable"]++
			}
		}
	}
	if ok, diff := sameArgs(want, got); !ok {
		return where + ": " + diff
	}
	return ""
}

func (w *argWalker) directives(ds ast.DirectiveList, where string) string {
	for _, d := range ds {
		if d.Definition == nil {
			continue
		}
		d := d
		if m := w.check(where+"@"+d.Name, d.Definition.Arguments, d.Arguments, func() map[string]interface{} { return d.ArgumentMap(w.vars) }); m != "" {
			return m
		}
	}
	return ""
}

func (w *argWalker) selections(ss ast.SelectionSet, where string) string {
	for _, sel := range ss {
		switch s := sel.(type) {
		case *ast.Field:
			if s.Definition == nil {
				continue
			}
			if m := w.check(where+"/"+s.Alias, s.Definition.Arguments, s.Arguments, func() map[string]interface{} { return s.ArgumentMap(w.vars) }); m != "" {
				return m
			}
			if m := w.directives(s.Directives, where+"/"+s.Alias); m != "" {
				return m
			}
			if m := w.selections(s.SelectionSet, where+"/"+s.Alias); m != "" {
				return m
			}
		case *ast.InlineFragment:
			if m := w.directives(s.Directives, where+"/..."); m != "" {
				return m
			}
			if m := w.selections(s.SelectionSet, where+"/..."); m != "" {
				return m
			}
		case *ast.FragmentSpread:
			if m := w.directives(s.Directives, where+"/..."+s.Name); m != "" {
				return m
			}
			if f := w.d.Fragments.ForName(s.Name); f != nil && !w.visited[s.Name] {
				w.visited[s.Name] = true
				if m := w.directives(f.Directives, "fragment "+s.Name); m != "" {
					return m
				}
				if m := w.selections(f.SelectionSet, "fragment "+s.Name); m != "" {
					return m
				}
			}
		}
	}
	return ""
}

func c15Eval(c c15Case) (viol string, known []string, nargs int, classes map[string]int) {
	classes = map[string]int{}
	schema, err := libLoadSchema(c.Schema)
	if err != nil {
		return "", nil, 0, classes
	}
	doc, errs := gqlparser.LoadQuery(schema, c.Query)
	if len(errs) > 0 {
		classes["document-rejected"]++
		return "", nil, 0, classes
	}
	for i, op := range doc.Operations {
		var raw map[string]interface{}
		if i < len(c.Vars) {
			raw, _ = decodeGo(c.Vars[i]).(map[string]interface{})
		}
		var coerced map[string]interface{}
		var cerr error
		if p := kit.Safely(func() { coerced, cerr = validator.VariableValues(schema, op, raw) }); p != nil || cerr != nil {
			classes["coercion-rejected"]++
			continue // coercion is C14's subject; argument resolution needs coerced variables
		}
		// re-link variable uses to this operation, as an executor running this operation would see them
		w := &argWalker{vars: coerced, d: doc, visited: map[string]bool{}, classes: classes}
		if m := w.directives(op.Directives, fmt.Sprintf("operation[%d]", i)); m != "" {
			return m, w.known, w.n, classes
		}
		if m := w.selections(op.SelectionSet, fmt.Sprintf("operation[%d]", i)); m != "" {
			return m, w.known, w.n, classes
		}
		known = append(known, w.known...)
		nargs += w.n
	}
	return "", known, nargs, classes
}

// genC15Vars draws variables for every operation of a typed document.
func genC15Vars(rt *rapid.T, g genVal) []interface{} {
	nestedUse := map[string]bool{}
	for _, u := range g.Typed.Uses {
		if u.Nested {
			nestedUse[u.Value.Raw] = true
		}
	}
	var out []interface{}
	for _, op := range g.Typed.Doc.Ops {
		vars := map[string]interface{}{}
		var names []string
		for _, v := range op.Vars {
			names = append(names, v.Name)
		}
		sort.Strings(names)
		for _, v := range op.Vars {
			optional := v.Default != nil || (!v.Type.NonNull && !nestedUse[v.Name])
			if optional && rapid.IntRange(0, 2).Draw(rt, "omit") == 0 {
				continue
			}
			vars[v.Name] = gen.ConformingValue(rt, g.Schema, v.Type, 2)
		}
		out = append(out, encodeGo(vars))
	}
	return out
}

func TestC15(t *testing.T) {
	r := kit.New(t, "C15")
	defer r.Finish()
	r.SetRule("valid (G6 schema, G8 document, G10 conforming variables) triples; variables are first coerced with VariableValues, as gqlgen does; ArgumentMap is called on EVERY field and directive reachable from every operation (through fragments too). " +
		"oracle: returns normally and equals the reference resolution literal (converted recursively, nested variables substituted) > supplied variable (incl. explicit null) > argument default > absent, compared after mapping Go integer kinds to int64 and nil slices to empty lists. " +
		"non-trivial = field or directive with at least one argument definition; classes: literal, top-level variable, nested variable, omitted with/without default, explicit null; distinct by (schema, document, variables)")
	r.Assume("variables used inside list or input-object literals are always supplied or defaulted: the value of an unsupplied nested variable is not determined by the property statement")
	replay := func(raw json.RawMessage) string {
		var c c15Case
		_ = json.Unmarshal(raw, &c)
		v, _, _, _ := c15Eval(c)
		return v
	}
	kit.RegisterReplayer("C15", "triple", replay)
	kit.RegisterReplayer("C15", "corpus", replay)
	if r.ReplayIfRequested() {
		return
	}
	for _, w := range c15Corpus {
		c := c15Case{Schema: c15Schema, Query: w.query, Vars: []interface{}{encodeGo(w.vars)}}
		r.Begin("corpus", func() interface{} { return c })
		v, known, n, classes := c15Eval(c)
		r.End()
		for _, k := range known {
			r.Known(k)
		}
		for k, cnt := range classes {
			r.ClassN("arg:"+k, int64(cnt))
		}
		r.Case(n > 0, "corpus:"+w.query)
		if v != "" {
			r.Violation("corpus", c, "%s", v)
		}
	}
	if r.Violations() > 0 {
		return
	}
	r.Rapid("triple", kit.Pick(20000, 400000), func(rt *rapid.T) {
		g, ok := genValidationCase(rt, 0)
		if !ok {
			rt.Skip("no case")
		}
		if rapid.IntRange(0, 9).Draw(rt, "hugefloat") == 0 {
			// a Float literal beyond float64: validation rejects it (then the case is skipped); should a
			// document with one ever pass, argument resolution must still be total
			if gen.ApplyDocFaultNamed(rt, g.Typed, g.Schema, "float-not-finite") {
				g.Case.Query = gen.JoinPlain(gen.QueryLexemes(g.Typed.Doc, gen.Canon))
			}
		}
		c := c15Case{Schema: g.Case.Schema, Query: g.Case.Query, Vars: genC15Vars(rt, g)}
		r.Begin("triple", func() interface{} { return c })
		defer r.End()
		v, known, n, classes := c15Eval(c)
		for _, k := range known {
			r.Known(k)
		}
		for k, cnt := range classes {
			r.ClassN("arg:"+k, int64(cnt))
		}
		key, _ := json.Marshal(c)
		r.Case(n > 0, string(key))
		r.ClassN("ArgumentMap-calls", int64(n))
		if n > 0 && r.WantSample("triple") {
			r.Sample("triple", c)
		}
		if v != "" {
			r.Failf(rt, "triple", c, "%s", v)
		}
	})
	_ = ref.DocOpts{}
}

const c15Schema = `
scalar Any
enum E { A B }
input In { a: Int = 7 b: [String!] c: In e: E = B }
directive @d(x: Int = 3, y: String) on FIELD
type Query { f(i: Int = 1, s: String, l: [Int] = [1, 2], o: In = {a: 5}, nn: Int! = 9, any: Any, e: E, fl: Float, id: ID, fls: [Float!]): Int g(any: Any = 99999999999999999999): Int h(any: Any = 1e999): Int }
`

var c15Corpus = []struct {
	query string
	vars  map[string]interface{}
}{
	// numbers no Go number type holds: validation rejects them in Int / Float / ID positions; should it
	// ever let one through, resolving the arguments must still return
	{`{ f(fl: 1e999) }`, nil}, {`{ f(fl: -1.5E+400) }`, nil}, {`{ f(fl: 99999999999999999999) }`, nil}, {`{ f(id: 99999999999999999999) }`, nil}, {`{ f(fls: [1.5, 2e308]) }`, nil},
	{`{ f(o: {a: 99999999999999999999}) }`, nil}, {`{ f @d(x: 99999999999999999999) }`, nil}, {`{ f(fl: 1.5, id: 7, fls: [1, 2.5]) }`, nil},
	{`{ f }`, nil}, {`{ f(i: 2, s: "x", l: [], o: {}, e: A) }`, nil}, {`{ f(i: null, s: null, l: null, o: null) }`, nil}, {`{ f(l: 5, o: {b: ["x"], c: {a: null}}) }`, nil},
	{`query ($i: Int, $s: String = "d", $l: [Int]) { f(i: $i, s: $s, l: $l) }`, nil},
	{`query ($i: Int, $s: String = "d", $l: [Int]) { f(i: $i, s: $s, l: $l) }`, map[string]interface{}{"i": nil, "s": nil, "l": []interface{}{1, nil}}},
	{`query ($i: Int = 4, $o: In) { f(i: $i, o: {a: $i, c: $o}, l: [$i, 3]) @d(x: $i) }`, map[string]interface{}{"o": map[string]interface{}{"a": 1}}},
	{`query ($nn: Int) { f(nn: $nn) }`, nil}, {`query ($nn: Int = 3) { f(nn: $nn) }`, nil}, {`{ f @d @d(y: "z") }`, nil}, {`{ x: f(any: {k: [1, 2.5, "s", true, null, E, {l: []}]}) }`, nil},
	{`{ f(any: 99999999999999999999) }`, nil}, {`{ g }`, nil}, {`{ h }`, nil}, {`{ f(any: 1e999) }`, nil}, {`{ ...F } fragment F on Query { f(i: 3) @d(x: 1) }`, nil},
}
