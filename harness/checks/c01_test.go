package checks

import (
	"encoding/json"
	"fmt"
	"os"
	"strings"
	"testing"
	"time"
	"unicode/utf8"

	"github.com/vektah/gqlparser/v2/ast"
	"github.com/vektah/gqlparser/v2/gqlerror"
	"github.com/vektah/gqlparser/v2/lexer"
	"github.com/vektah/gqlparser/v2/parser"
	"pgregory.net/rapid"

	"verif/harness/gen"
	"verif/harness/kit"
	"verif/harness/ref"
)

// C01 — lexing and parsing are total (DESIGN.md 6/C01).

var c01Alphabet = []string{`"`, `\`, "u", "0", ".", "-", "e", "#", "\n", "\r", "\xef", "\xbb", "{"}

type c01Case struct {
	Input string `json:"input"`
	// InputHex is set instead of Input when the input is not valid UTF-8
	InputHex string `json:"input_hex,omitempty"`
	Limits   []int  `json:"limits,omitempty"`
}

func mkC01Case(in string, limits []int) c01Case {
	if utf8.ValidString(in) {
		return c01Case{Input: in, Limits: limits}
	}
	return c01Case{InputHex: fmt.Sprintf("%x", in), Limits: limits}
}

func (c c01Case) text() string {
	if c.InputHex != "" {
		var b []byte
		fmt.Sscanf(c.InputHex, "%x", &b)
		return string(b)
	}
	return c.Input
}

// checkSyntaxError validates the shape and location of an error returned by a parser.
func checkSyntaxError(err error, limit int, lines []int) string {
	if err == nil {
		return ""
	}
	ge, ok := err.(*gqlerror.Error)
	if !ok {
		if limit != 0 && strings.HasPrefix(err.Error(), "exceeded token limit") {
			return ""
		}
		return fmt.Sprintf("error is neither a *gqlerror.Error nor the token-limit error: %T %v", err, err)
	}
	if ge.Message == "" {
		return "syntax error with empty message"
	}
	if len(ge.Locations) == 0 {
		return "syntax error without location: " + ge.Message
	}
	for _, l := range ge.Locations {
		if l.Line < 1 || l.Line > len(lines) {
			return fmt.Sprintf("syntax error %q names line %d, input has %d line(s)", ge.Message, l.Line, len(lines))
		}
		if l.Column < 1 || l.Column > lines[l.Line-1]+1 {
			return fmt.Sprintf("syntax error %q names line %d column %d, that line has %d character(s)", ge.Message, l.Line, l.Column, lines[l.Line-1])
		}
	}
	return ""
}

// totalOracle: every entry point returns normally with (doc, nil) or (_, located error).
func totalOracle(in string, limits []int) (viol string, ntoks int, lexFailedAfter int) {
	rs := []rune(in)
	lines := ref.Lines(rs)
	nrunes := len(rs)
	lexFailedAfter = -1
	// lexing to the end
	if p := kit.Safely(func() {
		lx := lexer.New(&ast.Source{Input: in})
		prevEnd := 0
		for i := 0; ; i++ {
			tok, err := lx.ReadToken()
			if err != nil {
				lexFailedAfter = i
				if v := checkSyntaxError(err, 0, lines); v != "" {
					viol = "lexer: " + v
				}
				return
			}
			if tok.Pos.Start < prevEnd || tok.Pos.End < tok.Pos.Start || tok.Pos.End > nrunes {
				viol = fmt.Sprintf("lexer: token %d (%s) has extent [%d,%d) after previous end %d in an input of %d characters", i, tok.Kind, tok.Pos.Start, tok.Pos.End, prevEnd, nrunes)
				return
			}
			prevEnd = tok.Pos.End
			if tok.Kind == lexer.EOF {
				ntoks = i
				return
			}
			if i > len(in)+1 {
				viol = "lexer: more tokens than input bytes"
				return
			}
		}
	}); p != nil {
		return "lexer panicked: " + p.Value + " at " + p.Site, 0, -1
	}
	if viol != "" {
		return
	}
	type ep struct {
		name string
		f    func(limit int) (interface{}, bool, error)
	}
	half := len(in) / 2
	for half > 0 && half < len(in) && !utf8.RuneStart(in[half]) {
		half--
	}
	eps := []ep{
		{"ParseQuery", func(int) (interface{}, bool, error) {
			d, err := parser.ParseQuery(&ast.Source{Input: in})
			return d, d == nil, err
		}},
		{"ParseSchema", func(int) (interface{}, bool, error) {
			d, err := parser.ParseSchema(&ast.Source{Input: in})
			return d, d == nil, err
		}},
		{"ParseSchemas", func(int) (interface{}, bool, error) {
			d, err := parser.ParseSchemas(&ast.Source{Name: "a", Input: in[:half]}, &ast.Source{Name: "b", Input: in[half:]})
			return d, d == nil, err
		}},
	}
	leps := []ep{
		{"ParseQueryWithTokenLimit", func(l int) (interface{}, bool, error) {
			d, err := parser.ParseQueryWithTokenLimit(&ast.Source{Input: in}, l)
			return d, d == nil, err
		}},
		{"ParseSchemaWithLimit", func(l int) (interface{}, bool, error) {
			d, err := parser.ParseSchemaWithLimit(&ast.Source{Input: in}, l)
			return d, d == nil, err
		}},
		{"ParseSchemasWithLimit", func(l int) (interface{}, bool, error) {
			d, err := parser.ParseSchemasWithLimit(l, &ast.Source{Name: "a", Input: in[:half]}, &ast.Source{Name: "b", Input: in[half:]})
			return d, d == nil, err
		}},
	}
	run := func(e ep, limit int) string {
		var isNil bool
		var err error
		if p := kit.Safely(func() { _, isNil, err = e.f(limit) }); p != nil {
			return fmt.Sprintf("%s(limit %d) panicked: %s at %s", e.name, limit, p.Value, p.Site)
		}
		if err == nil && isNil {
			return fmt.Sprintf("%s(limit %d) returned neither a document nor an error", e.name, limit)
		}
		if err != nil {
			ls := lines
			if strings.HasPrefix(e.name, "ParseSchemas") {
				// error locations refer to one of the two sources
				ge, ok := err.(*gqlerror.Error)
				if ok {
					if f, _ := ge.Extensions["file"].(string); f == "a" {
						ls = ref.Lines([]rune(in[:half]))
					} else {
						ls = ref.Lines([]rune(in[half:]))
					}
				}
			}
			if v := checkSyntaxError(err, limit, ls); v != "" {
				return fmt.Sprintf("%s(limit %d): %s", e.name, limit, v)
			}
		}
		return ""
	}
	for _, e := range eps {
		if v := run(e, 0); v != "" {
			return v, ntoks, lexFailedAfter
		}
	}
	for _, l := range limits {
		for _, e := range leps {
			if v := run(e, l); v != "" {
				return v, ntoks, lexFailedAfter
			}
		}
	}
	return "", ntoks, lexFailedAfter
}

func c01Limits(ntoks int) []int {
	return []int{0, 1, 2, ntoks - 1, ntoks, ntoks + 1, 1 << 40, -1}
}

func c01Eval(in string) (string, bool) {
	// token count for the limit choice comes from a first lexing pass inside the oracle:
	// use a cheap estimate first, then the exact count
	v, ntoks, failedAfter := totalOracle(in, nil)
	if v != "" {
		return v, true
	}
	v, _, _ = totalOracle(in, c01Limits(ntoks))
	return v, len(in) > 0 && (ntoks >= 2 || failedAfter >= 1 || (failedAfter == 0 && len(in) > 1))
}

func c01Replay(raw json.RawMessage) string {
	var c c01Case
	if err := json.Unmarshal(raw, &c); err != nil {
		return "bad replay case: " + err.Error()
	}
	v, _ := c01Eval(c.text())
	return v
}

type c01FamilyCase struct {
	Family string `json:"family"`
	N      int    `json:"n"`
	Limit  int    `json:"limit"`
}

func c01RunFamily(c c01FamilyCase) (d time.Duration, viol string) {
	text, schema := gen.Family(c.Family, c.N)
	src := &ast.Source{Input: text}
	best := time.Duration(1 << 62)
	reps := 3
	for i := 0; i < reps; i++ {
		t0 := time.Now()
		var err error
		var isNil bool
		if p := kit.Safely(func() {
			if schema {
				var d *ast.SchemaDocument
				d, err = parser.ParseSchemaWithLimit(src, c.Limit)
				isNil = d == nil
			} else {
				var d *ast.QueryDocument
				d, err = parser.ParseQueryWithTokenLimit(src, c.Limit)
				isNil = d == nil
			}
		}); p != nil {
			return 0, "panic: " + p.Value + " at " + p.Site
		}
		el := time.Since(t0)
		if el < best {
			best = el
		}
		if err == nil && isNil {
			return best, "neither document nor error"
		}
		if el > 2*time.Second {
			break
		}
	}
	return best, ""
}

func c01FamilyReplay(raw json.RawMessage) string {
	var c c01FamilyCase
	if err := json.Unmarshal(raw, &c); err != nil {
		return "bad replay case: " + err.Error()
	}
	d, v := c01RunFamily(c)
	if v != "" {
		return v
	}
	text, _ := gen.Family(c.Family, c.N)
	if len(text) <= 70000 && c.Limit == 0 && d > 5*time.Second {
		return fmt.Sprintf("%d bytes took %v", len(text), d)
	}
	if c.Limit != 0 && d > 3*time.Second {
		return fmt.Sprintf("%d bytes under limit %d took %v", len(text), c.Limit, d)
	}
	return ""
}

func writeInflight(prop, check string, c interface{}) {
	path := os.Getenv("VERIF_INFLIGHT")
	if path == "" {
		return
	}
	raw, _ := json.Marshal(c)
	b, _ := json.Marshal(kit.ReplayFile{Property: prop, Check: check, Message: "process died while this case was running", Case: raw})
	_ = os.WriteFile(path, b, 0o644)
}

func clearInflight() {
	if path := os.Getenv("VERIF_INFLIGHT"); path != "" {
		_ = os.Remove(path)
	}
}

func TestC01(t *testing.T) {
	r := kit.New(t, "C01")
	defer r.Finish()
	r.SetRule("inputs: (a) random byte soups of lexical fragments incl. invalid UTF-8, truncated anywhere; (b) every byte-prefix and every single-byte deletion of the repository's example documents and of generated documents; " +
		"(c) every string of length <= L over the 13-symbol hostile alphabet {\" \\ u 0 . - e # LF CR 0xEF 0xBB {}; (d) 25 size-parametrised adversarial families (nesting, floods, long lexemes) up to 64 KiB without limit and up to 8 MiB under the finite limits {-1, 1, 10, 1000, 100000}, with wall-time growth ratios. " +
		"Each input goes through Lexer.ReadToken to the end, ParseQuery, ParseSchema, ParseSchemas (two sources) and the three limited entry points at limits {0,1,2,k-1,k,k+1,2^40,-1}. " +
		"oracle: no panic/hang/death; (doc,nil) xor error; every syntax error has line within the input and 1 <= column <= line length + 1. non-trivial = non-empty input with >= 2 tokens or a lexical failure after the first token/byte; distinct by input")
	r.Assume("time bounds are wall-clock minima of three runs with wide margins (ratio <= 8 per doubling once above 20 ms; 64 KiB within 5 s; limited parses within 3 s)")
	kit.RegisterReplayer("C01", "soup", c01Replay)
	kit.RegisterReplayer("C01", "enum", func(raw json.RawMessage) string {
		var c inputCase
		_ = json.Unmarshal(raw, &c)
		v, _ := c01Eval(c.Input)
		return v
	})
	kit.RegisterReplayer("C01", "cut", c01Replay)
	kit.RegisterReplayer("C01", "family", c01FamilyReplay)
	if r.ReplayIfRequested() {
		return
	}
	r.SetBudget(60 * time.Second)

	// (d) adversarial families first: a process death here is attributed through the in-flight file
	maxUnlimited := 64 << 10
	maxLimited := kit.Pick(2<<20, 8<<20)
	shard, nshards := kit.Shard()
	for fi, fam := range gen.FamilyNames {
		if fi%nshards != shard {
			continue
		}
		unit, _ := gen.Family(fam, 1000)
		per := float64(len(unit)) / 1000
		var prev time.Duration
		for size := 1 << 10; size <= maxUnlimited; size *= 2 {
			c := c01FamilyCase{Family: fam, N: int(float64(size) / per), Limit: 0}
			writeInflight("C01", "family", c)
			r.Begin("family", func() interface{} { return c })
			d, v := c01RunFamily(c)
			r.End()
			r.Case(true, fmt.Sprintf("family:%s:%d:0", fam, c.N))
			r.Class("family:unlimited")
			if v == "" && size == maxUnlimited && d > 5*time.Second {
				v = fmt.Sprintf("%d bytes took %v (bound 5 s)", size, d)
			}
			if v == "" && prev > 20*time.Millisecond && d > 8*prev {
				// re-measure before believing it
				d2, _ := c01RunFamily(c)
				if d2 > 8*prev {
					v = fmt.Sprintf("time grew from %v to %v when the input doubled to %d bytes", prev, d2, size)
				}
			}
			if v != "" {
				r.Violation("family", c, "%s", v)
				break
			}
			prev = d
		}
		for _, limit := range []int{-1, 1, 10, 1000, 100000} { // (a negative limit is a finite limit: exceeded at once)
			for _, size := range []int{1 << 20, maxLimited} {
				c := c01FamilyCase{Family: fam, N: int(float64(size) / per), Limit: limit}
				writeInflight("C01", "family", c)
				r.Begin("family", func() interface{} { return c })
				d, v := c01RunFamily(c)
				r.End()
				r.Case(true, fmt.Sprintf("family:%s:%d:%d", fam, c.N, limit))
				r.Class("family:limited")
				if v == "" && d > 3*time.Second {
					v = fmt.Sprintf("%d bytes under limit %d took %v (bound 3 s)", size, limit, d)
				}
				if v != "" {
					r.Violation("family", c, "%s", v)
				}
			}
		}
	}
	clearInflight()
	r.SetBudget(20 * time.Second)
	if r.Violations() > 0 {
		return
	}

	// (c) exhaustive hostile strings
	maxLen := kit.Pick(5, 6)
	enumAll(r, "enum", c01Alphabet, maxLen, "", "", func(s string) (string, bool) { return c01Eval(s) })
	r.Exhaustive(sprintf("all byte strings of length <= %d over the 13-symbol hostile alphabet (incl. partial BOMs and truncated escapes at end of input)", maxLen))

	// (b) prefixes and single-byte deletions of example documents
	seeds := repoSeeds()
	if shard == 0 {
		nseed := 0
		for si, s := range seeds {
			if len(s) > kit.Pick(400, 1500) {
				continue
			}
			nseed++
			_ = si
			for k := 0; k <= len(s); k++ {
				for _, in := range []string{s[:k], s[:k] + s[min(k+1, len(s)):]} {
					in := in
					r.Begin("cut", func() interface{} { return mkC01Case(in, nil) })
					v, nt := c01Eval(in)
					r.End()
					r.Case(nt, in)
					if v != "" {
						r.Violation("cut", mkC01Case(in, nil), "%s", v)
						if r.Violations() > 3 {
							return
						}
					}
				}
			}
		}
		r.Class(sprintf("cut:seed-documents=%d", nseed))
	}
	if r.Violations() > 0 {
		return
	}

	// (a) soups
	r.Rapid("soup", kit.Pick(40000, 400000), func(rt *rapid.T) {
		in := gen.Soup(false).Draw(rt, "input")
		if rapid.IntRange(0, 9).Draw(rt, "splice") == 0 {
			in += gen.Soup(false).Draw(rt, "input2")
		}
		r.Begin("soup", func() interface{} { return mkC01Case(in, nil) })
		defer r.End()
		v, nt := c01Eval(in)
		r.Case(nt, in)
		if !utf8.ValidString(in) {
			r.Class("soup:invalid-utf8")
		}
		switch {
		case len(in) > 1000:
			r.Class("soup:>1000B")
		case len(in) > 100:
			r.Class("soup:101-1000B")
		default:
			r.Class("soup:<=100B")
		}
		if nt && r.WantSample("soup") {
			r.Sample("soup", mkC01Case(in, nil))
		}
		if v != "" {
			r.Failf(rt, "soup", mkC01Case(in, nil), "%s", v)
		}
	})
}
