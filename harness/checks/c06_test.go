package checks

import (
	"encoding/json"
	"strings"
	"testing"

	"github.com/vektah/gqlparser/v2/ast"
	"github.com/vektah/gqlparser/v2/parser"
	"pgregory.net/rapid"

	"verif/harness/gen"
	"verif/harness/kit"
	"verif/harness/ref"
)

// C06 — the schema parser accepts exactly the type-system grammar and builds a faithful tree.

var c06Alphabet = []string{"{", "}", "(", ")", "[", "]", ":", "=", "@", "!", "|", "&", "$", "a", "type", "schema", "extend", "query", "implements", "interface", "union",
	"enum", "input", "scalar", "directive", "on", "repeatable", "FIELD", `"s"`, `"""b"""`, "1"}

type c06Sub struct {
	name, prefix string
	alpha        []string
}

var c06Subs = []c06Sub{
	{"object", "type a", []string{"{", "}", "a", ":", "(", ")", "@", "implements", "&", `"s"`, "=", "1"}},
	{"ext-interface", "extend interface a", []string{"{", "}", "a", ":", "(", ")", "@", "implements", "&", `"s"`, "=", "!"}},
	{"union", "union a", []string{"=", "|", "a", "@", "(", ")", ":", `"s"`, "extend", "union", "1", "&"}},
	{"enum", "enum a", []string{"{", "}", "a", "@", "(", ")", ":", `"s"`, "true", "1", `"""b"""`, "extend"}},
	{"input", "input a", []string{"{", "}", "a", ":", "=", "@", "(", ")", "[", "]", "!", "$"}},
	{"ext-input", "extend input a", []string{"{", "}", "a", ":", "=", "@", "(", ")", "[", "$", "1", `"s"`}},
	{"directive", "directive @ a", []string{"(", ")", "a", ":", "=", "repeatable", "on", "|", "FIELD", "SCHEMA", "@", `"s"`}},
	{"schema", "", []string{"schema", "extend", "{", "}", "query", "mutation", ":", "a", "@", `"query"`, `"s"`, "("}},
	{"extend", "extend", []string{"scalar", "type", "input", "enum", "union", "schema", "interface", "a", "@", "{", "}", ":"}},
	{"desc", "", []string{`"s"`, `""`, `"""b"""`, "extend", "type", "scalar", "schema", "directive", "a", "@", "{", "}"}},
}

var c06NearMisses = []string{
	"", " ", "#c", "type", "type A", "type A {}", "type A { a }", "type A { a: }", "type A { a: Int } }", "type A { a: Int", "type A { a(: Int): Int }", "type A { a(): Int }",
	"type A { a(b: Int = $v): Int }", "type A { a(b: Int = [$v]): Int }", "type A { a: Int @d(x: $v) }", "type A @d(x: $v) { a: Int }", "type A implements { a: Int }",
	"type A implements B & { a: Int }", "type A implements & B { a: Int }", "type A implements B & C", "type A implements B, C { a: Int }", "type A implements B C { a: Int }",
	"type A \"implements\" B { a: Int }", "type A \"\"\"implements\"\"\" B", "type A implements \"B\"", "interface A implements B { a: Int }", "interface A", "extend interface A implements B",
	"extend interface A implements B { a: Int }", "extend interface A implements B @d", "extend interface A", "extend interface A @d", "extend interface A { a: Int }",
	"extend type A", "extend type A implements B", "extend type A @d", "extend type A { a: Int }", "extend type A {}", "extend scalar A", "extend scalar A @d", "extend union A", "extend union A = B",
	"extend union A = | B | C", "extend union A @d = B", "extend enum A", "extend enum A { B }", "extend enum A @d", "extend input A", "extend input A { a: Int }", "extend input A @d",
	"extend input A @d(a: $v)", "extend input A @d(a: [$v])", "extend input A { a: Int = $v }", "extend schema", "extend schema @d", "extend schema { query: Q }", "extend schema @d { query: Q }",
	"extend schema {}", "extend", "extend A", "extend directive @d on FIELD", "extend \"type\" A { a: Int }", "\"d\" extend type A { a: Int }", "\"\" extend type A { a: Int }",
	"\"\"\"\"\"\" extend type A { a: Int }", "\"\" \"\" type A", "\"d\"", "\"d\" \"e\" type A", "\"d\" type A", "\"\"\"d\"\"\" type A", "schema", "schema @d", "schema {}", "schema { query: Q }",
	"schema { query Q }", "schema { \"query\": Q }", "schema { \"\"\"query\"\"\": Q }", "schema { foo: Q }", "schema { query: Q mutation: M subscription: S }", "schema { query: \"Q\" }",
	"schema { query: Q } schema { query: Q }", "\"d\" schema { query: Q }", "schema @d(a: $v) { query: Q }", "union U", "union U =", "union U = |", "union U = A |", "union U = A | B", "union U = | A | B",
	"union U = A B", "union U @d = A", "union U = A @d", "enum E", "enum E {}", "enum E { A B }", "enum E { true }", "enum E { false }", "enum E { null }", "enum E { A @d \"x\" B }", "enum E { \"x\" }",
	"enum E { 1 }", "scalar S", "scalar", "scalar S @d @e", "scalar S { a: Int }", "input I", "input I {}", "input I { a: Int = 1 @d }", "input I { a: Int = }", "input I { a(b: Int): Int }",
	"directive @d on FIELD", "directive @d on", "directive @d", "directive d on FIELD", "directive @d on FIELD |", "directive @d on | FIELD", "directive @d on | FIELD | QUERY", "directive @d on FOO",
	"directive @d on field", "directive @d repeatable on FIELD", "directive @d repeatable repeatable on FIELD", "directive @d \"repeatable\" on FIELD", "directive @d \"on\" FIELD",
	"directive @d(a: Int) on FIELD", "directive @d() on FIELD", "directive @d(a: Int = $v) on FIELD", "directive @d(a: Int @e(x: $v)) on FIELD", "directive @on on on", "directive @d on FIELD FIELD",
	"directive @repeatable repeatable on FIELD", "type type { type: type }", "type on implements on { on(on: on = on): on @on(on: on) }", "type A { a: [Int }", "type A { a: [Int]] }",
	"type A { a: Int!! }", "type A { a: [] }", "type A { a: ! }", "type A { \"d\" a: Int }", "type A { \"d\" \"e\" a: Int }", "type A { a(\"d\" b: Int): Int }", "type A { a: Int \"d\" }",
	"{ a }", "query { a }", "fragment F on T { a }", "type A { a: Int } query { a }", "type A { a: Int }, type B { b: Int }", "type A { a: Int = 1 }", "input I { a: Int = {k: [1, {l: null}]} }",
	"type A { a(x: Int = 123abc): Int }", "\"\"\"a\n  b\"\"\" type A", "\"\"\"a\"\"\"\" type A", "type A { a: Int } #c", "#c\ntype A",
}

func c06Eval(r *kit.Rec, text string) (viol string, info parseInfo) {
	v, known, info := checkParse("C06", text, true)
	for _, k := range known {
		r.Known(k)
	}
	return v, info
}

func TestC06(t *testing.T) {
	r := kit.New(t, "C06")
	defer r.Finish()
	r.SetRule("inputs: (a) every sequence of up to L lexemes over a 31-lexeme type-system alphabet (" + strings.Join(c06Alphabet, " ") + ") plus viable-prefix extensions by one lexeme; " +
		"(b) per definition kind, a fixed head (e.g. `type a`, `extend input a`, `directive @ a`) followed by every sequence of up to M lexemes over a 12-lexeme sub-alphabet, plus viable-prefix extensions; " +
		"(c) G3 type-system trees rendered three ways; (d) single-lexeme mutants; (e) near-miss catalogue and wide/deep members of the grammar (15 kinds x 35 sizes up to 4097); (f) built-in flag: every generated document parsed with Source.BuiltIn true and false. " +
		"oracle: accepted <=> derivable per the reference recogniser; on acceptance the projected document equals the reference tree. non-trivial = accepted, or rejected with a viable longest proper prefix; distinct by text")
	r.Assume("reference recogniser in harness/ref (self-tested against parser/schema_test.yml) encodes the October 2021 type-system grammar incl. extensions")
	for _, c := range []string{"enum", "near", "wide", "tree", "mutant", "builtin"} {
		kit.RegisterReplayer("C06", c, func(raw json.RawMessage) string { return parseReplay("C06", true, raw) })
	}
	for _, s := range c06Subs {
		kit.RegisterReplayer("C06", "sub-"+s.name, func(raw json.RawMessage) string { return parseReplay("C06", true, raw) })
	}
	if r.ReplayIfRequested() {
		return
	}
	for _, in := range c06NearMisses {
		in := in
		r.Begin("near", func() interface{} { return inputCase{in} })
		v, info := c06Eval(r, in)
		r.Case(true, "near:"+in)
		if info.Accepted {
			r.Class("near:accepted-by-grammar")
		} else {
			r.Class("near:rejected-by-grammar")
		}
		if v != "" {
			r.Violation("near", inputCase{in}, "%s", v)
		}
		r.End()
		// the same with a comment between every two tokens: the verdict must not move
		if cv, ok := commentedVariant(in); ok {
			r.Begin("near", func() interface{} { return inputCase{cv} })
			v2, info2 := c06Eval(r, cv)
			r.Case(true, "near-commented:"+in)
			r.Class("near:commented-variant")
			if v2 == "" && info2.Accepted != info.Accepted {
				r.HarnessErrorf("the reference judges %q and its commented variant differently", in)
			}
			if v2 != "" {
				r.Violation("near", inputCase{cv}, "%s", v2)
			}
			r.End()
		}
	}
	for _, kind := range gen.WideSchemaKinds {
		for _, n := range gen.WideSizes {
			if strings.HasPrefix(kind, "d-") && n > 1100 {
				continue
			}
			in := gen.WideSchema(kind, n)
			r.Begin("wide", func() interface{} { return inputCase{in} })
			v, info := c06Eval(r, in)
			r.Case(true, sprintf("wide:%s:%d", kind, n))
			r.Class("wide:" + kind)
			if !info.Accepted {
				r.End()
				r.HarnessErrorf("wide family member %s/%d is not derivable for the reference", kind, n)
				return
			}
			if v != "" {
				r.Violation("wide", inputCase{in}, "%s", v)
			}
			r.End()
		}
	}
	evalSeq := func(text string, n int) (string, bool, bool) {
		v, info := c06Eval(r, text)
		return v, info.Accepted || info.Viable, info.Viable
	}
	full := kit.Pick(4, 5)
	enumSeq(r, "enum", "", c06Alphabet, full, full+1, evalSeq)
	r.Exhaustive(sprintf("all lexeme sequences of length <= %d over the 31-lexeme alphabet; length %d where the prefix is viable", full, full+1))
	sub := kit.Pick(5, 6)
	for _, s := range c06Subs {
		enumSeq(r, "sub-"+s.name, s.prefix, s.alpha, sub, sub+1, evalSeq)
		r.Exhaustive(sprintf("head `%s` + all sequences of length <= %d over %s; length %d where the prefix is viable", s.prefix, sub, strings.Join(s.alpha, " "), sub+1))
	}
	if r.Violations() > 0 {
		return
	}

	r.Rapid("tree", kit.Pick(2500, 60000), func(rt *rapid.T) {
		st := gen.SchemaDocTree().Draw(rt, "doc")
		lex := gen.SchemaLexemes(st, gen.Rand(rt))
		texts := []string{gen.JoinPlain(lex), gen.JoinMinimal(lex), gen.JoinRandom(rt, lex, true)}
		for i, text := range texts {
			text := text
			r.Begin("tree", func() interface{} { return inputCase{text} })
			rp := refParseText([]rune(text), true, ref.LexOpts{}, ref.ParseOpts{})
			if !rp.accept || !sameTree(rp.doc, st.Doc) {
				r.End()
				r.HarnessErrorf("rendering %d of a generated tree is not read back by the reference parser: %q: %s", i, text, treeDiff(st.Doc, rp.doc))
				rt.Fatalf("harness error")
			}
			v, _ := c06Eval(r, text)
			r.Case(true, text)
			r.Class([]string{"tree:plain", "tree:minimal", "tree:random-ignored"}[i])
			if i == 2 && r.WantSample("tree") {
				r.Sample("tree", text)
			}
			if v == "" && i == 0 {
				v = c06BuiltIn(text)
			}
			r.End()
			if v != "" {
				r.Failf(rt, "tree", inputCase{text}, "%s", v)
			}
		}
	})

	r.Rapid("mutant", kit.Pick(20000, 400000), func(rt *rapid.T) {
		st := gen.SchemaDocTree().Draw(rt, "doc")
		lex := gen.SchemaLexemes(st, gen.Canon)
		lex, op := mutateLexemes(rt, lex, c06Alphabet)
		text := gen.JoinPlain(lex)
		if rapid.IntRange(0, 2).Draw(rt, "ignoredtext") == 0 {
			// comments, commas and line breaks between the lexemes: the verdict must not depend on them
			text = gen.JoinRandom(rt, lex, true)
		}
		r.Begin("mutant", func() interface{} { return inputCase{text} })
		defer r.End()
		v, info := c06Eval(r, text)
		r.Case(true, text)
		r.Class("mutant:" + op)
		if info.Accepted {
			r.Class("mutant:still-derivable")
		} else {
			r.Class("mutant:not-derivable")
		}
		if r.WantSample("mutant") {
			r.Sample("mutant", text)
		}
		if v != "" {
			r.Failf(rt, "mutant", inputCase{text}, "%s", v)
		}
	})
}

// c06BuiltIn: definitions from a built-in source are marked built-in, others are not; also
// through ParseSchemas with mixed sources.
func c06BuiltIn(text string) string {
	for _, bi := range []bool{true, false} {
		d, err := parser.ParseSchema(&ast.Source{Input: text, BuiltIn: bi})
		if err != nil {
			return ""
		}
		for _, def := range d.Definitions {
			if def.BuiltIn != bi {
				return sprintf("definition %s from a source with BuiltIn=%v is marked BuiltIn=%v", def.Name, bi, def.BuiltIn)
			}
		}
		for _, def := range d.Extensions {
			if def.BuiltIn != bi {
				return sprintf("extension of %s from a source with BuiltIn=%v is marked BuiltIn=%v", def.Name, bi, def.BuiltIn)
			}
		}
	}
	d, err := parser.ParseSchemas(&ast.Source{Name: "b", Input: text, BuiltIn: true}, &ast.Source{Name: "u", Input: text, BuiltIn: false})
	if err != nil {
		return "ParseSchemas fails on two copies of a document ParseSchema accepts: " + err.Error()
	}
	for _, def := range append(append(ast.DefinitionList{}, d.Definitions...), d.Extensions...) {
		want := def.Position != nil && def.Position.Src != nil && def.Position.Src.Name == "b"
		if def.BuiltIn != want {
			return sprintf("definition %s from source %q is marked BuiltIn=%v", def.Name, def.Position.Src.Name, def.BuiltIn)
		}
	}
	return ""
}
