package checks

import (
	"encoding/json"
	"fmt"
	"sort"
	"strings"
	"testing"

	"github.com/vektah/gqlparser/v2/ast"
	"pgregory.net/rapid"

	"verif/harness/gen"
	"verif/harness/kit"
	"verif/harness/proj"
	"verif/harness/ref"
)

// C17 — schema loading is independent of definition order and of how sources are split.

type c17Piece struct {
	Text string   `json:"text"`
	Name string   `json:"name"` // type name, "@directive" or "schema"
	Kind string   `json:"kind"` // def ext directive schema schemaext
	IDs  []string `json:"-"`
}

type c17Case struct {
	Pieces []c17Piece `json:"pieces"`
	// Layouts: each layout is a list of sources, each a list of piece indices
	Layouts [][][]int `json:"layouts"`
	Fault   string    `json:"fault,omitempty"`
	Rule    string    `json:"rule,omitempty"`
}

func piecesOf(st gen.SchemaTree, choose gen.Chooser) []c17Piece {
	var out []c17Piece
	lex := gen.SchemaPieces(st, choose)
	for i, it := range st.Order {
		p := c17Piece{Text: gen.JoinPlain(lex[i]), Kind: it.List}
		switch it.List {
		case "schema", "schemaext":
			p.Name = "schema"
		case "directive":
			p.Name = "@" + st.Doc.Directives[it.Idx].Name
		case "def":
			p.Name = st.Doc.Defs[it.Idx].Name
		case "ext":
			p.Name = st.Doc.Exts[it.Idx].Name
		}
		out = append(out, p)
	}
	return out
}

func (c c17Case) sources(layout [][]int) schemaCase {
	var sc schemaCase
	for i, src := range layout {
		var sb strings.Builder
		for _, pi := range src {
			sb.WriteString(c.Pieces[pi].Text)
			sb.WriteString("\n")
		}
		sc.Sources = append(sc.Sources, srcText{fmt.Sprintf("f%d.graphql", i), sb.String()})
	}
	return sc
}

// canonSchema projects a loaded schema with everything order-dependent sorted.
func canonSchema(s *ast.Schema) string {
	type canon struct {
		Types      []*ref.TypeDef
		Directives []*ref.DirectiveDef
		Query      string
		Mutation   string
		Subscr     string
		Possible   map[string][]string
		Implements map[string][]string
		SchemaDirs []string
		Desc       string
	}
	raw := func(v interface{}) string { b, _ := json.Marshal(v); return string(b) }
	// sort keys do not distinguish a block string from a quoted string of equal value (a reloaded
	// schema has the one where the original had the other; the order must come out the same)
	js := func(v interface{}) string { return strings.ReplaceAll(raw(v), `"k":"Block"`, `"k":"String"`) }
	c := canon{Possible: map[string][]string{}, Implements: map[string][]string{}, Desc: s.Description}
	var names []string
	for n := range s.Types {
		names = append(names, n)
	}
	sort.Strings(names)
	for _, n := range names {
		d := proj.TypeDef(s.Types[n])
		sort.Slice(d.Fields, func(i, j int) bool { return js(d.Fields[i]) < js(d.Fields[j]) })
		sort.Strings(d.Interfaces)
		sort.Strings(d.Types)
		sort.Slice(d.EnumValues, func(i, j int) bool { return js(d.EnumValues[i]) < js(d.EnumValues[j]) })
		sort.Slice(d.Directives, func(i, j int) bool { return js(d.Directives[i]) < js(d.Directives[j]) })
		c.Types = append(c.Types, d)
	}
	var dn []string
	for n := range s.Directives {
		dn = append(dn, n)
	}
	sort.Strings(dn)
	for _, n := range dn {
		c.Directives = append(c.Directives, proj.DirectiveDef(s.Directives[n]))
	}
	name := func(d *ast.Definition) string {
		if d == nil {
			return ""
		}
		return d.Name
	}
	c.Query, c.Mutation, c.Subscr = name(s.Query), name(s.Mutation), name(s.Subscription)
	rel := func(m map[string][]*ast.Definition, out map[string][]string) {
		for k, l := range m {
			set := map[string]bool{}
			for _, d := range l {
				set[name(d)] = true
			}
			var ns []string
			for n := range set {
				ns = append(ns, n)
			}
			sort.Strings(ns)
			out[k] = ns
		}
	}
	rel(s.PossibleTypes, c.Possible)
	rel(s.Implements, c.Implements)
	for _, d := range proj.Directives(s.SchemaDirectives) {
		c.SchemaDirs = append(c.SchemaDirs, raw(d))
	}
	sort.Slice(c.SchemaDirs, func(i, j int) bool {
		return strings.ReplaceAll(c.SchemaDirs[i], `"k":"Block"`, `"k":"String"`) < strings.ReplaceAll(c.SchemaDirs[j], `"k":"Block"`, `"k":"String"`)
	})
	return raw(c)
}

func c17Eval(c c17Case) (viol string, loaded bool) {
	var base libLoad
	var baseCanon string
	for li, layout := range c.Layouts {
		sc := c.sources(layout)
		lib := loadLib(sc)
		if lib.panic != nil {
			return fmt.Sprintf("layout %d: LoadSchema panicked: %s at %s", li, lib.panic.Value, lib.panic.Site), false
		}
		if li == 0 {
			base = lib
			if lib.err == nil {
				baseCanon = canonSchema(lib.schema)
			}
		} else {
			if (lib.err == nil) != (base.err == nil) {
				return fmt.Sprintf("layout %d %v: verdict differs from the single-source baseline: baseline err=%v, this layout err=%v", li, layout, base.err, lib.err), false
			}
			if lib.err == nil {
				if cs := canonSchema(lib.schema); cs != baseCanon {
					i := 0
					for i < len(cs) && i < len(baseCanon) && cs[i] == baseCanon[i] {
						i++
					}
					lo := i - 80
					if lo < 0 {
						lo = 0
					}
					return fmt.Sprintf("layout %d %v: loaded schema differs from the baseline near …%s… vs …%s…", li, layout, cut(baseCanon, lo, i+80), cut(cs, lo, i+80)), true
				}
			}
		}
		if lib.err != nil {
			// the error names a file in which an involved definition was written
			if lib.gerr == nil {
				return fmt.Sprintf("layout %d: load error is not a *gqlerror.Error: %T", li, lib.err), false
			}
			file, _ := lib.gerr.Extensions["file"].(string)
			if len(lib.gerr.Locations) == 0 {
				return fmt.Sprintf("layout %d: load error %q has no location", li, lib.gerr.Message), false
			}
			rl := loadRef(sc, schemaValidateOptsOpen("C17"))
			if !rl.parsed || rl.unsupported != "" || len(rl.viol) == 0 {
				continue // the reference has no opinion on who is involved
			}
			involved := map[string]bool{}
			for _, v := range rl.viol {
				for _, n := range v.Involved {
					involved[n] = true
				}
			}
			ok := false
			for si, src := range layout {
				if fmt.Sprintf("f%d.graphql", si) != file {
					continue
				}
				for _, pi := range src {
					if involved[c.Pieces[pi].Name] {
						ok = true
					}
				}
			}
			if !ok {
				var inv []string
				for n := range involved {
					inv = append(inv, n)
				}
				sort.Strings(inv)
				return fmt.Sprintf("layout %d %v: load error %q names file %q, which contains none of the definitions involved (%s)", li, layout, lib.gerr.Message, file, strings.Join(inv, ", ")), false
			}
		}
	}
	return "", base.err == nil
}

func cut(s string, lo, hi int) string {
	if lo > len(s) {
		return ""
	}
	if hi > len(s) {
		hi = len(s)
	}
	return s[lo:hi]
}

func c17Replay(raw json.RawMessage) string {
	var c c17Case
	if err := json.Unmarshal(raw, &c); err != nil {
		return "bad replay case: " + err.Error()
	}
	v, _ := c17Eval(c)
	return v
}

// genLayouts: baseline (one source, generation order) + special orders + random ones.
func genLayouts(rt *rapid.T, pieces []c17Piece, nrandom int) ([][][]int, bool) {
	n := len(pieces)
	ident := make([]int, n)
	for i := range ident {
		ident[i] = i
	}
	layouts := [][][]int{{ident}}
	// extensions first
	var extFirst, rest []int
	for i, p := range pieces {
		if p.Kind == "ext" || p.Kind == "schemaext" {
			extFirst = append(extFirst, i)
		} else {
			rest = append(rest, i)
		}
	}
	layouts = append(layouts, [][]int{append(append([]int{}, extFirst...), rest...)})
	if len(extFirst) > 0 && len(rest) > 0 {
		layouts = append(layouts, [][]int{extFirst, rest})
	}
	// reversed (puts interfaces after implementers: the generator emits types sorted by name, I* before O*/Query)
	rev := make([]int, n)
	for i := range rev {
		rev[i] = n - 1 - i
	}
	layouts = append(layouts, [][]int{rev})
	moved := len(extFirst) > 0
	for k := 0; k < nrandom; k++ {
		perm := rapid.Permutation(ident).Draw(rt, "perm")
		ns := rapid.IntRange(1, 5).Draw(rt, "nsources")
		layout := make([][]int, ns)
		for _, pi := range perm {
			si := rapid.IntRange(0, ns-1).Draw(rt, "src")
			layout[si] = append(layout[si], pi)
		}
		layouts = append(layouts, layout)
	}
	return layouts, moved
}

func TestC17(t *testing.T) {
	r := kit.New(t, "C17")
	defer r.Finish()
	r.SetRule("G6 schemas (valid) and G6+G7 schemas (one fault) as lists of top-level pieces; baseline = one source in generation order; variants: extensions first (one and two sources), reversed order, and N random permutations each partitioned at random into 1-5 named sources. " +
		"oracle: same verdict as the baseline; on success the loaded schema is equal after sorting fields, members, values, directives and relation entries; on failure extensions.file names a source holding a piece of a definition the reference validator reports as involved. " +
		"non-trivial = schema with an extension (moved before its base) or a fault; distinct by pieces+layouts")
	kit.RegisterReplayer("C17", "valid", c17Replay)
	kit.RegisterReplayer("C17", "fault", c17Replay)
	if r.ReplayIfRequested() {
		return
	}
	nrand := kit.Pick(4, 20)
	r.Rapid("valid", kit.Pick(2500, 40000), func(rt *rapid.T) {
		st := gen.TypedSchema().Draw(rt, "schema")
		if rapid.IntRange(0, 3).Draw(rt, "extendbuiltin") == 0 {
			gen.ExtendBuiltin(rt, &st)
		}
		pieces := piecesOf(st, gen.Rand(rt))
		layouts, moved := genLayouts(rt, pieces, nrand)
		c := c17Case{Pieces: pieces, Layouts: layouts}
		r.Begin("valid", func() interface{} { return c })
		defer r.End()
		v, loaded := c17Eval(c)
		key, _ := json.Marshal(c)
		r.Case(moved, string(key))
		r.ClassN("layouts", int64(len(layouts)))
		if r.WantSample("valid") {
			r.Sample("valid", c)
		}
		if v == "" && !loaded {
			v = "valid-by-construction schema does not load in the baseline layout"
		}
		if v != "" {
			r.Failf(rt, "valid", c, "%s", v)
		}
	})
	r.Rapid("fault", kit.Pick(3500, 40000), func(rt *rapid.T) {
		st := gen.TypedSchema().Draw(rt, "schema")
		f, ok := gen.ApplySchemaFault(rt, &st, rapid.IntRange(0, gen.NumSchemaFaults()-1).Draw(rt, "fault"))
		if !ok {
			rt.Skip("no target")
		}
		pieces := piecesOf(st, gen.Canon)
		layouts, _ := genLayouts(rt, pieces, nrand)
		c := c17Case{Pieces: pieces, Layouts: layouts, Fault: f.Name, Rule: f.Rule}
		r.Begin("fault", func() interface{} { return c })
		defer r.End()
		v, _ := c17Eval(c)
		key, _ := json.Marshal(c)
		r.Case(true, string(key))
		r.Class("fault:" + f.Name)
		r.ClassN("layouts", int64(len(layouts)))
		if v != "" {
			r.Failf(rt, "fault", c, "%s", v)
		}
	})
}
