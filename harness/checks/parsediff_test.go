package checks

import (
	"strings"
	"encoding/json"
	"fmt"
	"reflect"
	"unicode/utf8"

	"github.com/vektah/gqlparser/v2/ast"
	"github.com/vektah/gqlparser/v2/parser"

	"verif/harness/kit"
	"verif/harness/proj"
	"verif/harness/ref"
)

// parse-level known findings: id -> option setter
var parseKF = []struct {
	id  string
	set func(o *ref.ParseOpts)
}{
	{"empty-document", func(o *ref.ParseOpts) { o.AllowEmpty = true }},
	{"string-as-keyword", func(o *ref.ParseOpts) { o.StringKeyword = true }},
	{"vardef-directives-nonconst", func(o *ref.ParseOpts) { o.VarDefDirectivesVar = true }},
	{"schema-without-braces", func(o *ref.ParseOpts) { o.SchemaWithoutBraces = true }},
	{"extend-interface-implements", func(o *ref.ParseOpts) { o.NoExtendInterfaceImpl = true }},
	{"extend-input-nonconst", func(o *ref.ParseOpts) { o.ExtendInputDirsVar = true }},
	{"empty-description-before-extend", func(o *ref.ParseOpts) { o.EmptyDescBeforeExtend = true }},
	{"enum-value-true-false-null", func(o *ref.ParseOpts) { o.EnumValueAnyName = true }},
}

func parseOptsOpen(prop string) ref.ParseOpts {
	var o ref.ParseOpts
	for _, k := range parseKF {
		if kit.KFOpen(prop, k.id) {
			k.set(&o)
		}
	}
	return o
}

// NormDoc removes what the library's tree does not represent: shorthand-ness and the
// interleaving of operations and fragments.
func normDoc(d *ref.Doc) *ref.Doc {
	if d == nil {
		return nil
	}
	out := &ref.Doc{}
	for _, f := range d.Frags {
		c := *f
		c.Sels = normSels(f.Sels)
		out.Frags = append(out.Frags, &c)
	}
	for _, o := range d.Ops {
		c := *o
		c.Shorthand = false
		c.Sels = normSels(o.Sels)
		out.Ops = append(out.Ops, &c)
	}
	return out
}

// an alias equal to the field name is not distinguishable from no alias in the library's tree
func normSels(ss []*ref.Selection) []*ref.Selection {
	var out []*ref.Selection
	for _, s := range ss {
		c := *s
		if c.Alias == c.Name {
			c.Alias = ""
		}
		c.Sels = normSels(s.Sels)
		out = append(out, &c)
	}
	return out
}

func sameTree(a, b interface{}) bool {
	if reflect.DeepEqual(a, b) {
		return true
	}
	ja, _ := json.Marshal(a)
	jb, _ := json.Marshal(b)
	return string(ja) == string(jb)
}

func treeDiff(a, b interface{}) string {
	ja, _ := json.Marshal(a)
	jb, _ := json.Marshal(b)
	sa, sb := string(ja), string(jb)
	i := 0
	for i < len(sa) && i < len(sb) && sa[i] == sb[i] {
		i++
	}
	lo := i - 60
	if lo < 0 {
		lo = 0
	}
	cut := func(s string) string {
		hi := i + 80
		if hi > len(s) {
			hi = len(s)
		}
		if lo > len(s) {
			return ""
		}
		return s[lo:hi]
	}
	return fmt.Sprintf("expected …%s… got …%s…", cut(sa), cut(sb))
}

type parseInfo struct {
	Accepted  bool // by the strict grammar
	Viable    bool // token sequence is a viable prefix of the strict grammar (or accepted)
	NTokens   int
	LexFailed bool
}

type refParse struct {
	lexOK  bool
	accept bool
	fail   int
	ntoks  int
	doc    interface{}
}

func refParseText(rs []rune, schema bool, lo ref.LexOpts, po ref.ParseOpts) refParse {
	lr := ref.Lex(rs, lo)
	if !lr.OK {
		return refParse{}
	}
	toks := ref.StripComments(lr.Toks)
	rp := refParse{lexOK: true, ntoks: len(toks) - 1}
	if schema {
		d, fail := ref.ParseSchema(toks, po)
		rp.accept, rp.fail = fail < 0, fail
		if d != nil {
			rp.doc = d
		}
	} else {
		d, fail := ref.ParseQuery(toks, po)
		rp.accept, rp.fail = fail < 0, fail
		if d != nil {
			rp.doc = normDoc(d)
		}
	}
	return rp
}

type libParse struct {
	accept bool
	err    error
	doc    interface{}
	panic  *kit.Panic
	qdoc   *ast.QueryDocument
	sdoc   *ast.SchemaDocument
}

// disturbParser makes one earlier call into the parser package, chosen by the text itself (so a
// replay repeats it): a parse must not depend on what was parsed before it, in particular not
// on a token limit given to an earlier call.
func disturbParser(text string) {
	h := 0
	for i := 0; i < len(text); i++ {
		h = h*31 + int(text[i])
	}
	if h < 0 {
		h = -h
	}
	kit.Safely(func() {
		switch h % 6 {
		case 0:
			parser.ParseQueryWithTokenLimit(&ast.Source{Input: "{ a b c d e f }"}, 3)
		case 1:
			parser.ParseSchemaWithLimit(&ast.Source{Input: "type T { a: Int b: Int }"}, 4)
		case 2:
			parser.ParseQueryWithTokenLimit(&ast.Source{Input: "{ a }"}, 3)
		case 3:
			parser.ParseSchemaWithLimit(&ast.Source{Input: "scalar S"}, 2)
		}
	})
}

func libParseText(text string, schema bool) (lp libParse) {
	disturbParser(text)
	lp.panic = kit.Safely(func() {
		if schema {
			d, err := parser.ParseSchema(&ast.Source{Input: text})
			lp.err, lp.sdoc = err, d
			if err == nil {
				lp.accept = true
				lp.doc = proj.SchemaDoc(d)
			}
		} else {
			d, err := parser.ParseQuery(&ast.Source{Input: text})
			lp.err, lp.qdoc = err, d
			if err == nil {
				lp.accept = true
				lp.doc = proj.Doc(d)
			}
		}
	})
	return
}

func compareParse(rp refParse, lp libParse) string {
	if lp.panic != nil {
		return "parser panicked: " + lp.panic.Value + " at " + lp.panic.Site
	}
	if rp.accept != lp.accept {
		if rp.accept {
			return fmt.Sprintf("derivable from the grammar but rejected: %v", lp.err)
		}
		if !rp.lexOK {
			return "not lexable per the grammar but accepted by the parser"
		}
		return fmt.Sprintf("not derivable from the grammar (no continuation at token %d of %d) but accepted", rp.fail, rp.ntoks)
	}
	if rp.accept && !sameTree(rp.doc, lp.doc) {
		return "tree differs from what was written: " + treeDiff(rp.doc, lp.doc)
	}
	return ""
}

// checkParse evaluates the C05 (schema=false) / C06 (schema=true) oracle on one text.
func checkParse(prop, text string, schema bool) (viol string, known []string, info parseInfo) {
	if !utf8.ValidString(text) {
		return "", nil, info
	}
	rs := []rune(text)
	strict := refParseText(rs, schema, ref.LexOpts{}, ref.ParseOpts{})
	info.Accepted = strict.accept
	info.NTokens = strict.ntoks
	info.LexFailed = !strict.lexOK
	info.Viable = strict.lexOK && (strict.accept || strict.fail == strict.ntoks)
	lp := libParseText(text, schema)
	msg := compareParse(strict, lp)
	if msg == "" {
		return "", nil, info
	}
	lo, po := lexOptsOpen(prop), parseOptsOpen(prop)
	if lo == (ref.LexOpts{}) && po == (ref.ParseOpts{}) {
		return msg, nil, info
	}
	relaxed := refParseText(rs, schema, lo, po)
	if m2 := compareParse(relaxed, lp); m2 != "" {
		return msg + " || with open known findings applied: " + m2, nil, info
	}
	// attribute to single relaxations where possible
	for _, c := range []struct {
		id string
		o  ref.LexOpts
	}{
		{"number-lookahead", ref.LexOpts{NoNumberLookahead: true}},
		{"block-indent-first-line", ref.LexOpts{BlockIndentCountsFirstLine: true}},
		{"block-quote-run", ref.LexOpts{BlockTakesLastThreeQuotes: true}},
	} {
		if kit.KFOpen(prop, c.id) && compareParse(refParseText(rs, schema, c.o, ref.ParseOpts{}), lp) == "" {
			known = append(known, c.id)
		}
	}
	for _, k := range parseKF {
		if kit.KFOpen(prop, k.id) {
			var o ref.ParseOpts
			k.set(&o)
			if compareParse(refParseText(rs, schema, ref.LexOpts{}, o), lp) == "" {
				known = append(known, k.id)
			}
		}
	}
	if len(known) == 0 {
		known = []string{"combination-of-findings"}
	}
	return "", known, info
}

// commentedVariant rewrites a lexable text so that a comment stands between every two tokens
// (and before the first and after the last one). Comments are ignored by both grammars, so the
// variant is derivable exactly when the original is; ok=false when the text does not lex.
func commentedVariant(text string) (string, bool) {
	rs := []rune(text)
	lr := ref.Lex(rs, ref.LexOpts{})
	if !lr.OK {
		return "", false
	}
	var sb strings.Builder
	sb.WriteString("#c\n")
	for _, tk := range lr.Toks {
		if tk.Kind == ref.EOF {
			break
		}
		sb.WriteString(string(rs[tk.Start:tk.End]))
		if tk.Kind == ref.Comment {
			sb.WriteString("\n")
		} else {
			sb.WriteString(" #c\n")
		}
	}
	return sb.String(), true
}
