package checks

import (
	"encoding/json"
	"fmt"
	"strings"
	"testing"
	"time"

	"github.com/vektah/gqlparser/v2"
	"github.com/vektah/gqlparser/v2/ast"
	"github.com/vektah/gqlparser/v2/parser"
	"github.com/vektah/gqlparser/v2/validator"
	"pgregory.net/rapid"

	"verif/harness/gen"
	"verif/harness/kit"
	"verif/harness/ref"
)

// C02 — schema loading and validation never crash and terminate on every document.

// c02Eval runs every entry point on the pair and checks that each returns normally with a
// well-formed result. validated reports whether validation really ran.
func c02Eval(c valCase) (viol string, validated bool) {
	var schema *ast.Schema
	var err error
	if p := kit.Safely(func() { schema, err = gqlparser.LoadSchema(&ast.Source{Name: "s.graphql", Input: c.Schema}) }); p != nil {
		return "LoadSchema panicked: " + p.Value + " at " + p.Site, false
	}
	if (schema == nil) == (err == nil) {
		return fmt.Sprintf("LoadSchema returned schema=%v err=%v: neither or both", schema != nil, err), false
	}
	// the two-step entry point
	if sd, perr := parser.ParseSchemas(validator.Prelude, &ast.Source{Name: "s.graphql", Input: c.Schema}); perr == nil {
		var s2 *ast.Schema
		var err2 error
		if p := kit.Safely(func() { s2, err2 = validator.ValidateSchemaDocument(sd) }); p != nil {
			return "ValidateSchemaDocument panicked: " + p.Value + " at " + p.Site, false
		}
		if (s2 == nil) == (err2 == nil) {
			return "ValidateSchemaDocument returned neither or both of schema and error", false
		}
		if (err2 == nil) != (err == nil) {
			return fmt.Sprintf("LoadSchema (err=%v) and ParseSchemas+ValidateSchemaDocument (err=%v) disagree", err, err2), false
		}
	}
	if schema == nil {
		return "", false
	}
	doc, perr := parser.ParseQuery(&ast.Source{Input: c.Query})
	if perr != nil {
		return "", false
	}
	if p := kit.Safely(func() { _ = validator.Validate(schema, doc) }); p != nil {
		return "Validate panicked: " + p.Value + " at " + p.Site, true
	}
	if p := kit.Safely(func() {
		d, errs := gqlparser.LoadQuery(schema, c.Query)
		if (d == nil) == (len(errs) == 0) {
			panic("LoadQuery returned neither or both of document and errors")
		}
	}); p != nil {
		return "LoadQuery: " + p.Value + " at " + p.Site, true
	}
	return "", true
}

func c02Replay(raw json.RawMessage) string {
	var c valCase
	if err := json.Unmarshal(raw, &c); err != nil {
		return "bad replay case: " + err.Error()
	}
	v, _ := c02Eval(c)
	return v
}

const c02Schema = `
interface Node { id: ID! q: Query }
type A implements Node { id: ID! q: Query a: A s: String n: Int l: [A] u: U }
type B implements Node { id: ID! q: Query b: B s: Int }
union U = A | B
input In { a: Int l: [In] n: In s: String }
type Query { q: Query a: A b: B u: U node: Node s: String i(x: In, l: [[Int]]): Int }
schema { query: Query mutation: Query subscription: Query }
`

type c02Family struct {
	Name string
	// build returns a document of about `size` bytes
	Build func(size int) string
}

func repUntil(size int, piece func(i int) string) (string, int) {
	var sb strings.Builder
	i := 0
	for sb.Len() < size {
		sb.WriteString(piece(i))
		i++
	}
	return sb.String(), i
}

var c02Families = []c02Family{
	{"fragment-fanout", func(size int) string {
		body, n := repUntil(size, func(i int) string { return fmt.Sprintf("fragment f%d on Query{...f%d ...f%d}", i, i+1, i+1) })
		return "{...f0}" + body + fmt.Sprintf("fragment f%d on Query{s}", n)
	}},
	{"fragment-fanout-under-field", func(size int) string {
		body, n := repUntil(size, func(i int) string { return fmt.Sprintf("fragment f%d on Query{q{...f%d ...f%d}}", i, i+1, i+1) })
		return "{q{...f0}}" + body + fmt.Sprintf("fragment f%d on Query{s}", n)
	}},
	{"fragment-fanout-under-schema", func(size int) string {
		body, n := repUntil(size, func(i int) string { return fmt.Sprintf("fragment f%d on __Schema{...f%d ...f%d}", i, i+1, i+1) })
		return "{__schema{...f0}}" + body + fmt.Sprintf("fragment f%d on __Schema{description}", n)
	}},
	{"fragment-fanout-three-way", func(size int) string {
		body, n := repUntil(size, func(i int) string {
			return fmt.Sprintf("fragment f%d on Query{a:q{...f%d} b:q{...f%d} ...f%d}", i, i+1, i+1, i+1)
		})
		return "{...f0}" + body + fmt.Sprintf("fragment f%d on Query{s}", n)
	}},
	{"fragment-cycle-through-fields", func(size int) string {
		body, n := repUntil(size, func(i int) string { return fmt.Sprintf("fragment f%d on Query{q{...f%d} ...f%d}", i, i+1, i/2) })
		return "{...f0}" + body + fmt.Sprintf("fragment f%d on Query{q{...f0}}", n)
	}},
	{"fragment-chain", func(size int) string {
		body, n := repUntil(size, func(i int) string { return fmt.Sprintf("fragment f%d on Query{...f%d}", i, i+1) })
		return "{...f0}" + body + fmt.Sprintf("fragment f%d on Query{s}", n)
	}},
	{"same-response-name-wide", func(size int) string {
		body, _ := repUntil(size, func(i int) string { return "s " })
		return "{" + body + "}"
	}},
	{"same-response-name-wide-composite", func(size int) string {
		body, _ := repUntil(size, func(i int) string { return "q{s} " })
		return "{" + body + "}"
	}},
	{"same-response-name-deep", func(size int) string {
		open, n := repUntil(size/2, func(i int) string { return "q{q{s}" })
		return "{" + open + strings.Repeat("}", n) + "}"
	}},
	{"aliases-conflicting", func(size int) string {
		body, _ := repUntil(size, func(i int) string { return fmt.Sprintf("x:q{x:s} x:a{x:n} ") })
		return "{" + body + "}"
	}},
	{"inline-fragments-wide-union", func(size int) string {
		body, _ := repUntil(size, func(i int) string { return "...on A{s}...on B{s}" })
		return "{u{" + body + "}}"
	}},
	{"inline-fragments-nested", func(size int) string {
		open, n := repUntil(size/2, func(i int) string { return "...on Node{" })
		return "{node{" + open + "id" + strings.Repeat("}", n) + "}}"
	}},
	{"deep-selection", func(size int) string {
		open, n := repUntil(size/2, func(i int) string { return "q{" })
		return "{" + open + "s" + strings.Repeat("}", n) + "}"
	}},
	{"input-object-large", func(size int) string {
		body, _ := repUntil(size, func(i int) string { return "{a:1 s:\"x\"}," })
		return "{i(x:{l:[" + body + "]})}"
	}},
	{"input-object-deep", func(size int) string {
		open, n := repUntil(size/2, func(i int) string { return "{n:" })
		return "{i(x:" + open + "{a:1}" + strings.Repeat("}", n) + ")}"
	}},
	{"list-literal-deep", func(size int) string {
		open, n := repUntil(size/2, func(i int) string { return "[" })
		return "{i(l:" + open + strings.Repeat("]", n) + ")}"
	}},
	{"many-variables", func(size int) string {
		defs, n := repUntil(size/2, func(i int) string { return fmt.Sprintf("$v%d:Int ", i) })
		var use strings.Builder
		for i := 0; i < n; i++ {
			fmt.Fprintf(&use, "k%d:i(l:[[$v%d]]) ", i, i)
		}
		return "query(" + defs + "){" + use.String() + "}"
	}},
	{"many-operations-sharing-fragments", func(size int) string {
		body, _ := repUntil(size, func(i int) string { return fmt.Sprintf("query Q%d{...F ...G}", i) })
		return body + "fragment F on Query{q{...G}} fragment G on Query{s}"
	}},
	{"unknown-everything", func(size int) string {
		body, _ := repUntil(size, func(i int) string { return fmt.Sprintf("x%d(y:$z)@w{...N%d} ", i, i) })
		return "{" + body + "}"
	}},
	{"introspection-fanout", func(size int) string {
		body, n := repUntil(size, func(i int) string { return fmt.Sprintf("fragment f%d on __Type{ofType{...f%d} ...f%d}", i, i+1, i+1) })
		return "{__type(name:\"A\"){...f0}}" + body + fmt.Sprintf("fragment f%d on __Type{name}", n)
	}},
}

func init() {
	// every fan-out family also with a back edge from the last fragment to the first (a
	// cycle: the document is invalid, and validation must still come back quickly)
	for _, f := range append([]c02Family{}, c02Families...) {
		if strings.Contains(f.Name, "fanout") || f.Name == "fragment-chain" {
			f := f
			c02Families = append(c02Families, c02Family{f.Name + "-with-back-edge", func(size int) string {
				text := f.Build(size)
				return text[:len(text)-1] + " ...f0}"
			}})
		}
	}
	c02Families = append(c02Families, c02Family{"introspection-fanout-under-schema-types", func(size int) string {
		body, n := repUntil(size, func(i int) string { return fmt.Sprintf("fragment f%d on __Type{...f%d ...f%d}", i, i+1, i+1) })
		return "{__schema{types{...f0}}}" + body + fmt.Sprintf("fragment f%d on __Type{name ...f0}", n)
	}})
}

type c02FamilyCase struct {
	Family string `json:"family"`
	Size   int    `json:"size"`
	Op     string `json:"op,omitempty"` // "", "mutation" or "subscription": the operation kind the family member is wrapped in
}

func c02RunFamily(c c02FamilyCase) (time.Duration, string) {
	var fam *c02Family
	for i := range c02Families {
		if c02Families[i].Name == c.Family {
			fam = &c02Families[i]
		}
	}
	if fam == nil {
		return 0, "unknown family"
	}
	schema, err := libLoadSchema(c02Schema)
	if err != nil {
		return 0, ""
	}
	text := fam.Build(c.Size)
	if c.Op != "" && strings.HasPrefix(text, "{") {
		text = c.Op + text
	}
	doc, perr := parser.ParseQuery(&ast.Source{Input: text})
	if perr != nil {
		return 0, "" // the family member does not parse: nothing to validate
	}
	best := time.Duration(1 << 62)
	for i := 0; i < 2; i++ {
		t0 := time.Now()
		if p := kit.Safely(func() { _ = validator.Validate(schema, doc) }); p != nil {
			return 0, "Validate panicked: " + p.Value + " at " + p.Site
		}
		if el := time.Since(t0); el < best {
			best = el
		}
		if best > time.Second || best < c02Bound(c.Size)/3 {
			break // clearly inside the bound (no second opinion needed) or too slow to repeat
		}
		doc, _ = parser.ParseQuery(&ast.Source{Input: text})
	}
	return best, ""
}

func c02Bound(size int) time.Duration {
	// a kilobyte-sized request must validate in < 2 s, a 4 KB one in < 30 s (the slowest legitimate member, cubic, needs 3.6 s there)
	if size <= 1024 {
		return 2 * time.Second
	}
	return time.Duration(float64(size) / 1024 * 7.5 * float64(time.Second))
}

func TestC02(t *testing.T) {
	r := kit.New(t, "C02")
	defer r.Finish()
	r.SetRule("(schema, document) pairs: schemas from G6 (valid), G6+G7 (one or two faults; every fault operator on its own in a dedicated class) and random SDL over small name pools; documents from G8, G8+G9 (1-3 faults) and type-blind generation over the schema's name pools (unknown types/fields, undefined variables, unused and mutually recursive fragments, wrong value shapes); " + sprintf("%d", len(c02Families)) +
		" size-parametrised families (fragment fan-out plain/under a field/under __schema/__type, cycles through fields, every fan-out also with a back edge from the last fragment to the first, wide and deep same-response-name selections, wide unions, large and deep literals) at 256 B - 4 KB; overlap, introspection and random fragment-graph documents (2-45 fragments, fan-out 1-3, forward and back edges, spreads plain / under a field / under an alias, over Query, __Type and __Schema). " +
		"oracle: LoadSchema, ParseSchemas+ValidateSchemaDocument, Validate and LoadQuery return normally (schema xor error; document xor errors; both load paths agree); a <=1 KB document validates in < 2 s, 4 KB in < 30 s, time ratio per doubling <= 20 once above 50 ms. " +
		"non-trivial = both texts parse and the schema loads (validation really ran); distinct by text")
	r.Assume("time bounds are wall-clock minima of two runs on one core with margins > 5x over the slowest legitimate family member measured on the unchanged tree")
	kit.RegisterReplayer("C02", "pair", c02Replay)
	kit.RegisterReplayer("C02", "corpus", c02Replay)
	kit.RegisterReplayer("C02", "family", func(raw json.RawMessage) string {
		var c c02FamilyCase
		_ = json.Unmarshal(raw, &c)
		d, v := c02RunFamily(c)
		if v == "" && d > c02Bound(c.Size) {
			v = fmt.Sprintf("%d-byte document took %v to validate (bound %v)", c.Size, d, c02Bound(c.Size))
		}
		return v
	})
	if r.ReplayIfRequested() {
		return
	}
	for _, c := range append(append([]valCase{}, c02Corpus...), corpusValCases("C02")...) {
		c := c
		r.Begin("corpus", func() interface{} { return c })
		v, ran := c02Eval(c)
		r.End()
		r.Case(ran, "corpus:"+c.Schema+c.Query)
		if v != "" {
			r.Violation("corpus", c, "%s", v)
		}
	}
	// families
	r.SetBudget(25 * time.Second)
	shard, nshards := kit.Shard()
	familyMs := map[string]float64{}
	defer func() { r.Extra("family_validation_ms_at_4KB", familyMs) }()
	for fi, fam := range c02Families {
		if fi%nshards != shard {
			continue
		}
		for _, opKind := range []string{"", "mutation", "subscription"} {
			var prev time.Duration
			for _, size := range []int{256, 512, 1024, 2048, 4096} {
				c := c02FamilyCase{fam.Name, size, opKind}
				writeInflight("C02", "family", c)
				r.Begin("family", func() interface{} { return c })
				d, v := c02RunFamily(c)
				r.End()
				r.Case(true, fmt.Sprintf("family:%s:%d:%s", fam.Name, size, opKind))
				r.Class("family")
				if v == "" && d > c02Bound(size) {
					v = fmt.Sprintf("%d-byte document took %v to validate (bound %v)", size, d, c02Bound(size))
				}
				if v == "" && prev > 50*time.Millisecond && d > 20*prev {
					if d2, _ := c02RunFamily(c); d2 > 20*prev {
						v = fmt.Sprintf("validation time grew from %v to %v when the document doubled to %d bytes", prev, d2, size)
					}
				}
				if v != "" {
					r.Violation("family", c, "%s", v)
					break
				}
				prev = d
				if size == 4096 && float64(d.Microseconds())/1000 > familyMs[fam.Name] {
					familyMs[fam.Name] = float64(d.Microseconds()) / 1000
				}
			}
		}
	}
	clearInflight()
	r.SetBudget(30 * time.Second)
	if r.Violations() > 0 {
		return
	}
	kit.RegisterReplayer("C02", "overlap", c02Replay)
	r.Rapid("overlap", kit.Pick(5000, 300000), func(rt *rapid.T) {
		var d *ref.Doc
		schema := gen.OverlapSchema
		var c valCase
		switch k := rapid.IntRange(0, 5).Draw(rt, "intro"); k {
		case 0:
			d, schema = gen.IntrospectionDocument(rt), c08Schema
		case 1:
			sch, q := gen.FragmentGraphDocument(rt, c02Schema, c02Schema)
			c = valCase{Schema: sch, Query: q, Class: "fragment-graph"}
		default:
			d = gen.OverlapDocument(rt, rapid.IntRange(0, 3).Draw(rt, "acyclic") == 0)
		}
		if d != nil {
			c = valCase{Schema: schema, Query: gen.JoinPlain(gen.QueryLexemes(d, gen.Canon)), Class: "overlap"}
		}
		// the process may die (stack exhaustion): the driver then reports this file as the replay
		writeInflight("C02", "overlap", c)
		r.Begin("overlap", func() interface{} { return c })
		defer r.End()
		v, ran := c02Eval(c)
		r.Case(ran, c.Query)
		r.Class(c.Class)
		if ran && r.WantSample(c.Class) {
			r.Sample(c.Class, c)
		}
		if v != "" {
			r.Failf(rt, "overlap", c, "%s", v)
		}
	})
	clearInflight()
	// every schema fault operator, one at a time (the loader's error paths)
	kit.RegisterReplayer("C02", "schemafault", c02Replay)
	r.Rapid("schemafault", kit.Pick(3000, 100000), func(rt *rapid.T) {
		st := gen.TypedSchema().Draw(rt, "schema")
		f, ok := gen.ApplySchemaFault(rt, &st, rapid.IntRange(0, gen.NumSchemaFaults()-1).Draw(rt, "sfault"))
		if !ok {
			rt.Skip("no target")
		}
		if rapid.IntRange(0, 3).Draw(rt, "second") == 0 {
			gen.ApplySchemaFault(rt, &st, rapid.IntRange(0, gen.NumSchemaFaults()-1).Draw(rt, "sfault2"))
		}
		c := valCase{Schema: renderSchemaTree(st, gen.Canon), Query: "{ __typename }", Class: "schema-fault"}
		r.Begin("schemafault", func() interface{} { return c })
		defer r.End()
		v, _ := c02Eval(c)
		r.Case(true, c.Schema)
		r.Class("schemafault:" + f.Name)
		if v != "" {
			r.Failf(rt, "schemafault", c, "%s", v)
		}
	})
	r.Rapid("pair", kit.Pick(4000, 200000), func(rt *rapid.T) {
		var c valCase
		switch k := rapid.IntRange(0, 5).Draw(rt, "class"); k {
		case 0, 1, 2:
			g, ok := genValidationCase(rt, k)
			if !ok {
				rt.Skip("no case")
			}
			c = g.Case
			if g.Typed != nil && rapid.Bool().Draw(rt, "misspell") {
				c.Query = gen.JoinPlain(misspell(rt, gen.QueryLexemes(g.Typed.Doc, gen.Canon)))
			}
		case 3:
			// faulty schema, type-blind document over its names
			st := gen.TypedSchema().Draw(rt, "schema")
			for i, n := 0, rapid.IntRange(1, 2).Draw(rt, "nsf"); i < n; i++ {
				gen.ApplySchemaFault(rt, &st, rapid.IntRange(0, gen.NumSchemaFaults()-1).Draw(rt, "sfault"))
			}
			c.Schema = renderSchemaTree(st, gen.Canon)
			m, _, _ := ref.Merge(st.Doc)
			c.Query = gen.JoinPlain(gen.QueryLexemes(gen.BlindDocument(rt, m), gen.Canon))
			c.Class = "faulty-schema"
		default:
			st := gen.SchemaDocTree().Draw(rt, "sdl")
			c.Schema = renderSchemaTree(st, gen.Canon)
			m, _, _ := ref.Merge(st.Doc)
			c.Query = gen.JoinPlain(gen.QueryLexemes(gen.BlindDocument(rt, m), gen.Canon))
			c.Class = "random-sdl"
		}
		r.Begin("pair", func() interface{} { return c })
		defer r.End()
		v, ran := c02Eval(c)
		r.Case(ran && (strings.Contains(c.Query, "fragment") || strings.Contains(c.Query, "(")), c.Schema+"\x00"+c.Query)
		r.Class("pair:" + c.Class)
		if ran {
			r.Class("pair:validation-ran")
		}
		if ran && r.WantSample("pair:"+c.Class) {
			r.Sample("pair:"+c.Class, c)
		}
		if v != "" {
			r.Failf(rt, "pair", c, "%s", v)
		}
	})
}

var c02Corpus = []valCase{
	// oneOf literals whose single member is unknown, null, or both; several members; a variable
	{Schema: c08Schema, Query: `{ a(choice: {nosuch: null}) { n } }`}, {Schema: c08Schema, Query: `{ a(choice: {nosuch: 1}) { n } }`}, {Schema: c08Schema, Query: `{ a(choice: {a: null}) { n } }`},
	{Schema: c08Schema, Query: `{ a(choice: {nosuch: null, a: null}) { n } }`}, {Schema: c08Schema, Query: `{ a { n } } fragment Unused on Query { a(choice: {nosuch: null}) { n } }`},
	{Schema: c08Schema, Query: `query ($c: Choice = {nosuch: null}) { a(choice: $c) { n } x: a(filter: {limit: 1, nested: {nosuch: null}}) { n } }`},
	// interface fields with more / fewer list levels than the implementer's
	{Schema: "interface I { f: [String] g: [[Int]] h: Int } type Query implements I { f: String g: [Int] h: [Int] }", Query: "{ f }"},
	{Schema: "interface I { f: [[String!]!]! } interface J implements I { f: [String!]! } type Query implements I & J { f: String! }", Query: "{ f }"},
	{Schema: c08Schema, Query: `{ a(choice: {a: $undefined}) { n } }`},
	{Schema: c08Schema, Query: `{ a { n } } fragment G on Query { a(choice: {a: $v}) { n } }`},
	{Schema: "interface I { f: U } type A implements I { f: X } type X { a: Int } union U = Missing type Query { a: A }", Query: "{ a { f { a } } }"},
	{Schema: c02Schema, Query: `{ ...F } fragment F on Query { q { ...F } ...G } fragment G on Query { ...F }`},
	{Schema: c02Schema, Query: `{ i(x: {l: [{n: {n: {a: "x"}}}]}) }`},
	{Schema: c02Schema, Query: `query ($v: [Unknown!]! = [{}]) { i(x: $v, l: $v) @skip(if: $v) }`},
	{Schema: "type Query { a: Int } extend type Missing { b: Int }", Query: "{ a }"},
	{Schema: "schema { query: Missing }", Query: "{ a }"},
	{Schema: "type Query implements Query { a: Int }", Query: "{ a }"},
	{Schema: "interface I implements I { a: Int } type Query implements I { a: Int }", Query: "{ a }"},
	{Schema: "interface I implements J { a: Int } interface J implements I { a: Int } type Query implements I & J { a: Int }", Query: "{ a }"},
	{Schema: "input In { a: In! } type Query { a(x: In = {a: {a: null}}): Int }", Query: "{ a }"},
	{Schema: "type Query { a: [[[[Query!]!]!]!]! }", Query: "{ a { a { a { __typename } } } }"},
	{Schema: "directive @d(x: In) on FIELD input In { d: Int @d(x: {d: 1}) } type Query { a: Int }", Query: "{ a @d(x: {d: 2}) }"},
}
