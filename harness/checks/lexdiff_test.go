package checks

import (
	"fmt"
	"unicode/utf8"

	"github.com/vektah/gqlparser/v2/ast"

	"verif/harness/kit"
	"verif/harness/proj"
	"verif/harness/ref"
)

// lexOptsOpen returns the reference lexer options that reproduce the deviations listed as
// open known findings for property prop.
func lexOptsOpen(prop string) ref.LexOpts {
	return ref.LexOpts{
		NoNumberLookahead:          kit.KFOpen(prop, "number-lookahead"),
		BlockIndentCountsFirstLine: kit.KFOpen(prop, "block-indent-first-line"),
		BlockTakesLastThreeQuotes:  kit.KFOpen(prop, "block-quote-run"),
	}
}

type lexDiff struct {
	Msg     string
	NTokens int  // tokens the reference produced (without EOF)
	Failed  bool // reference rejects the input
	Decoded bool // some token value differs from its lexeme
}

// diffLex compares the library's token stream on input with the reference under opts.
// It returns "" when they agree.
func diffLex(input string, rs []rune, o ref.LexOpts, withValues bool) (d lexDiff) {
	want := ref.Lex(rs, o)
	var got []proj.LibTok
	var err error
	if p := kit.Safely(func() { got, err = proj.LibLex(&ast.Source{Input: input}) }); p != nil {
		d.Msg = "lexer panicked: " + p.Value + " at " + p.Site
		return
	}
	d.NTokens = len(want.Toks)
	if want.OK {
		d.NTokens--
	}
	d.Failed = !want.OK
	for _, t := range want.Toks {
		if (t.Kind == ref.String || t.Kind == ref.BlockString) && t.End-t.Start != len([]rune(t.Value))+2 {
			d.Decoded = true
		}
	}
	if want.OK != (err == nil) {
		if want.OK {
			d.Msg = fmt.Sprintf("grammar admits %d tokens, library fails after %d: %v", len(want.Toks), len(got), err)
		} else {
			d.Msg = fmt.Sprintf("grammar admits no token at offset %d (%s) after %d tokens, library lexed %d tokens without error", want.FailStart, want.Reason, len(want.Toks), len(got))
		}
		return
	}
	if len(want.Toks) != len(got) {
		d.Msg = fmt.Sprintf("token count before %s: grammar %d, library %d", map[bool]string{true: "EOF", false: "failure"}[want.OK], len(want.Toks), len(got))
		return
	}
	for i, w := range want.Toks {
		g := got[i]
		if string(w.Kind) != g.Kind || w.Start != g.Start || w.End != g.End {
			d.Msg = fmt.Sprintf("token %d: grammar %s[%d,%d) library %s[%d,%d)", i, w.Kind, w.Start, w.End, g.Kind, g.Start, g.End)
			return
		}
		if withValues && w.ValueExact && w.Value != g.Value {
			d.Msg = fmt.Sprintf("token %d (%s[%d,%d)): value per grammar %q, library %q", i, w.Kind, w.Start, w.End, w.Value, g.Value)
			return
		}
	}
	return
}

// checkLexConformance evaluates the C03 oracle on one valid-UTF-8 input: strict grammar
// first, then the grammar relaxed by the open known findings. known lists the finding ids
// that explain a strict mismatch.
func checkLexConformance(prop, input string) (viol string, known []string, d lexDiff) {
	if !utf8.ValidString(input) {
		return "", nil, d
	}
	rs := []rune(input)
	d = diffLex(input, rs, ref.LexOpts{}, true)
	if d.Msg == "" {
		return "", nil, d
	}
	open := lexOptsOpen(prop)
	if open == (ref.LexOpts{}) {
		return d.Msg, nil, d
	}
	if d2 := diffLex(input, rs, open, true); d2.Msg != "" {
		return d.Msg + " || with open known findings applied: " + d2.Msg, nil, d
	}
	// attribute
	for _, c := range []struct {
		id string
		o  ref.LexOpts
	}{
		{"number-lookahead", ref.LexOpts{NoNumberLookahead: true}},
		{"block-indent-first-line", ref.LexOpts{BlockIndentCountsFirstLine: true}},
		{"block-quote-run", ref.LexOpts{BlockTakesLastThreeQuotes: true}},
	} {
		if kit.KFOpen(prop, c.id) && diffLex(input, rs, c.o, true).Msg == "" {
			known = append(known, c.id)
		}
	}
	if len(known) == 0 {
		known = []string{"lexer-combination"}
	}
	return "", known, d
}
