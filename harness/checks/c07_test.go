package checks

import (
	"encoding/json"
	"testing"

	"pgregory.net/rapid"

	"verif/harness/gen"
	"verif/harness/kit"
	"verif/harness/ref"
)

// C07 — a loaded schema is closed and consistent; ill-formed type systems are rejected.

func renderSchemaTree(st gen.SchemaTree, choose gen.Chooser) string {
	return gen.JoinPlain(gen.SchemaLexemes(st, choose))
}

// c07Eval: verdict against the reference, then the object graph of a loaded schema.
func c07Eval(r *kit.Rec, c schemaCase) (viol string, skip bool, loaded bool) {
	v, known, skip, lib, rl := checkSchemaVerdict("C07", c)
	for _, k := range known {
		if r != nil {
			r.Known(k)
		}
	}
	if v != "" || skip {
		return v, skip, false
	}
	if lib.err != nil {
		return "", false, false
	}
	if len(known) > 0 {
		return "", false, true // loaded although the strict rules reject: graph checks do not apply
	}
	return checkSchemaGraph(lib.schema, rl.schema), false, true
}

func c07Replay(raw json.RawMessage) string {
	var c schemaCase
	if err := json.Unmarshal(raw, &c); err != nil {
		return "bad replay case: " + err.Error()
	}
	v, _, _ := c07Eval(nil, c)
	if v == "" && c.Rule != "" {
		// a constructed fault must be rejected
		if lib := loadLib(c); lib.err == nil && lib.panic == nil {
			rl := loadRef(c, schemaValidateOptsOpen("C07"))
			if len(rl.viol) > 0 {
				return "constructed fault " + c.Fault + " loads"
			}
		}
	}
	return v
}

func TestC07(t *testing.T) {
	r := kit.New(t, "C07")
	defer r.Finish()
	r.SetRule("type systems: (a) G6 valid-by-construction schemas (interfaces implementing interfaces, unions, oneOf inputs, custom roots, types named like default roots, extensions split off, applied directives) - must load; " +
		"(b) the same with one injected fault from a catalogue of " + sprintf("%d", gen.NumSchemaFaults()) + " operators covering every enforced rule - must be rejected; (c) random SDL from the G3 type-system tree generator over small name pools - verdict from the reference validator; (d) the repository's example schemas. " +
		"oracle: loads <=> reference rule list finds no violation; every loaded schema: Types/Directives equal to the merged definitions, all references resolve, roots pointer-identical to Types entries, built-ins present, __schema/__type exposed, PossibleTypes/Implements equal the relations implied by the definitions. " +
		"non-trivial = schema with an interface-implements-interface edge, an extension or a fault; distinct by text")
	r.Assume("reference validator ref.Schema.Validate encodes the rule list of the property statement; extensions of undefined types, duplicate root assignments and repeated user re-declarations of built-in directives are outside the domain (DESIGN.md 7)")
	for _, c := range []string{"valid", "fault", "random", "seed", "corpus"} {
		kit.RegisterReplayer("C07", c, c07Replay)
	}
	if r.ReplayIfRequested() {
		return
	}
	for _, in := range c07Corpus {
		c := schemaCase{Sources: []srcText{{"corpus.graphql", in}}}
		r.Begin("corpus", func() interface{} { return c })
		v, _, _ := c07Eval(r, c)
		r.End()
		r.Case(true, "corpus:"+in)
		if v != "" {
			r.Violation("corpus", c, "%s", v)
		}
	}
	for _, in := range repoGraphQLFiles() {
		c := schemaCase{Sources: []srcText{{"seed.graphql", in}}}
		r.Begin("seed", func() interface{} { return c })
		v, skip, _ := c07Eval(r, c)
		r.End()
		r.Case(!skip, "seed:"+in)
		if skip {
			r.Class("seed:outside-domain")
		}
		if v != "" {
			r.Violation("seed", c, "%s", v)
		}
	}
	if r.Violations() > 0 {
		return
	}

	r.Rapid("valid", kit.Pick(6000, 200000), func(rt *rapid.T) {
		st := gen.TypedSchema().Draw(rt, "schema")
		if rapid.IntRange(0, 3).Draw(rt, "extendbuiltin") == 0 {
			gen.ExtendBuiltin(rt, &st)
		}
		text := renderSchemaTree(st, gen.Rand(rt))
		c := schemaCase{Sources: []srcText{{"s.graphql", text}}}
		r.Begin("valid", func() interface{} { return c })
		defer r.End()
		// generator self-check: valid by construction must be valid for the reference
		rl := loadRef(c, ref.ValidateOpts{})
		if !rl.parsed || rl.unsupported != "" || len(rl.viol) > 0 {
			r.HarnessErrorf("generated schema is not valid for the reference: parsed=%v unsupported=%q violations=%v\n%s", rl.parsed, rl.unsupported, rl.viol, text)
			rt.Fatalf("harness error")
		}
		v, _, loaded := c07Eval(r, c)
		nt := len(st.Doc.Exts) > 0
		for _, d := range st.Doc.Defs {
			if d.Kind == "INTERFACE" && len(d.Interfaces) > 0 {
				nt = true
				r.Class("valid:interface-implements-interface")
			}
		}
		r.Case(nt, text)
		if len(st.Doc.Schemas) > 0 {
			r.Class("valid:custom-roots")
		}
		if r.WantSample("valid") {
			r.Sample("valid", text)
		}
		if v == "" && !loaded {
			v = "valid-by-construction schema is rejected: " + loadLib(c).err.Error()
		}
		if v != "" {
			r.Failf(rt, "valid", c, "%s", v)
		}
	})

	r.Rapid("fault", kit.Pick(7500, 200000), func(rt *rapid.T) {
		st := gen.TypedSchema().Draw(rt, "schema")
		idx := rapid.IntRange(0, gen.NumSchemaFaults()-1).Draw(rt, "fault")
		f, ok := gen.ApplySchemaFault(rt, &st, idx)
		if !ok {
			rt.Skip("no target")
		}
		text := renderSchemaTree(st, gen.Canon)
		c := schemaCase{Sources: []srcText{{"s.graphql", text}}, Fault: f.Name, Rule: f.Rule}
		r.Begin("fault", func() interface{} { return c })
		defer r.End()
		rl := loadRef(c, ref.ValidateOpts{})
		found := false
		for _, v := range rl.viol {
			if v.Rule == f.Rule {
				found = true
			}
		}
		if !rl.parsed || rl.unsupported != "" || !found {
			r.HarnessErrorf("fault %s (rule %s) is not reported by the reference: parsed=%v unsupported=%q violations=%v\n%s", f.Name, f.Rule, rl.parsed, rl.unsupported, rl.viol, text)
			rt.Fatalf("harness error")
		}
		v, _, _ := c07Eval(r, c)
		r.Case(true, text)
		r.Class("fault:" + f.Name)
		if r.WantSample("fault:" + f.Name) {
			r.Sample("fault:"+f.Name, c)
		}
		if v != "" {
			r.Failf(rt, "fault", c, "%s", v)
		}
	})

	r.Rapid("random", kit.Pick(15000, 400000), func(rt *rapid.T) {
		st := gen.SchemaDocTree().Draw(rt, "sdl")
		// extensions of types nothing defines are outside the domain: mostly retarget them at a
		// defined name (of any kind: a kind mismatch is one of the rules) so that the verdict is decided
		var defined []string
		for _, d := range st.Doc.Defs {
			defined = append(defined, d.Name)
		}
		for _, e := range st.Doc.Exts {
			has := false
			for _, n := range defined {
				if n == e.Name {
					has = true
				}
			}
			if !has && len(defined) > 0 && rapid.IntRange(0, 9).Draw(rt, "retarget") != 0 {
				e.Name = rapid.SampledFrom(defined).Draw(rt, "base")
			} else if !has && rapid.Bool().Draw(rt, "builtinbase") {
				e.Name = rapid.SampledFrom([]string{"String", "__Type", "__TypeKind", "Int"}).Draw(rt, "builtin")
			}
		}
		text := renderSchemaTree(st, gen.Canon)
		c := schemaCase{Sources: []srcText{{"s.graphql", text}}}
		r.Begin("random", func() interface{} { return c })
		defer r.End()
		v, skip, loaded := c07Eval(r, c)
		r.Case(!skip, text)
		switch {
		case skip:
			r.Class("random:outside-domain")
		case loaded:
			r.Class("random:loads")
		default:
			r.Class("random:rejected")
		}
		if v != "" {
			r.Failf(rt, "random", c, "%s", v)
		}
	})
}

var c07Corpus = []string{
	"type Query { a: Int }",
	"interface I { f(a: Int!): Int } type Query implements I { f(a: Int): Int }",
	"interface I { f(a: Int): Int } type Query implements I { f(a: Int!): Int }",
	"interface I { f: U } type A implements I { f: X } type X { a: Int } union U = Missing type Query { a: A }",
	"interface I { f: U } type A implements I { f: X } type X { a: Int } union U = X type Query { a: A }",
	"interface I1 { a: Int } interface I2 implements I1 { a: Int b: Int } type Query implements I2 & I1 { a: Int b: Int }",
	"interface I1 { a: Int } interface I2 implements I1 { a: Int b: Int } type Query implements I2 { a: Int b: Int }",
	"type Query { a: Int } type Mutation { b: Int } schema { query: Query }",
	"type Q { a: Int } schema { query: Q } extend schema { mutation: M } type M { b: Int }",
	"type Query { a(x: In): Int } input In { a: Int b: In }",
	"type Query { a: In } input In { a: Int }",
	"type Query { a(x: Query): Int }",
	"type Query { a: Int } extend type Query { a: Int }",
	"type Query { a: Int } enum E", "type Query { a: Int } enum E { true }", "type Query", "type Query { __a: Int }", "type Query { a(__x: Int): Int }",
	"type Query { a: Int @deprecated(nosuch: 1) }", "type Query { a: Int } directive @d(x: Int @d) on ARGUMENT_DEFINITION",
	"type Query { a: Int } directive @include(if: Boolean!) on FIELD", "type Query { a: Int } scalar Int",
	"type Query { a: Int } union U", "type Query { a: Int } union U = Query | Query",
	"type Query implements I & I { a: Int } interface I { a: Int }",
}
