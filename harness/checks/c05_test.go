package checks

import (
	"encoding/json"
	"strings"
	"testing"

	"pgregory.net/rapid"

	"verif/harness/gen"
	"verif/harness/kit"
	"verif/harness/ref"
)

// C05 — the query parser accepts exactly the executable grammar and builds a faithful tree.

var c05Alphabet = []string{"{", "}", "(", ")", "[", "]", ":", "=", "$", "@", "!", "...", "a", "on", "query", "fragment", "1", `"s"`}
var c05AlphabetB = []string{"{", "}", "(", ")", ":", "$", "@", "...", "a", "on", "query", "fragment", `"on"`, `"""on"""`, "true", "null", "|", "&"}

var c05MutAlphabet = append(append([]string{}, c05Alphabet...), `"on"`, `"""on"""`, "true", "null", "|", "&", "mutation", "1.5", "$a", "#c\n")

// near misses of the executable grammar (G5 catalogue); each is evaluated on every run
var c05NearMisses = []string{
	"", " ", "#c", "{}", "{ a() }", "{ a(b:) }", "{ a(b:1 }", "{ a(:1) }", "{ a(b 1) }", "query", "query Q", "query Q()", "query Q() { a }", "query ($a:Int=$b) { a }",
	"query ($a:Int @d(x:$a)) { a }", "query ($a:Int = [$b]) { a }", "query ($a:Int = {k:$b}) { a }", "query ($a) { a }", "query ($a:) { a }", "query ($a:Int!!) { a }",
	"query ($a:[Int) { a }", "query ($a:[]) { a }", "query ($a:Int,) { a }", "query (a:Int) { a }", "query Q Q { a }", "{ ... }", "{ ... on }", "{ ... on T }", "{ ...on }",
	"{ ... on T { a } }", "{ ... { a } }", "{ ... @d { a } }", "{ ... \"on\" T { a } }", "{ ... \"\"\"on\"\"\" T { a } }", "{ ...\"on\" }", "{ ...on T {a} }", "{ ...a }", "{ ...a on T { b } }",
	"fragment on on T { a }", "fragment F { a }", "fragment F on { a }", "fragment F on T", "fragment F on T { }", "fragment \"F\" on T { a }", "fragment F \"on\" T { a }",
	"fragment F($a:Int) on T { a }", "fragment F() on T { a }", "{ a: }", "{ a:b:c }", "{ a b: }", "{ :a }", "{ a { } }", "{ a @ }", "{ a @d( ) }", "{ a @d(x:1) @d }", "{ a @1 }",
	"{ a(x:[) }", "{ a(x:[1 2,3]) }", "{ a(x:{) }", "{ a(x:{k}) }", "{ a(x:{k:}) }", "{ a(x:{k:1 l:2}) }", "{ a(x:{\"k\":1}) }", "{ a(x:$) }", "{ a(x:$1) }", "{ a(x:$ y) }", "{ a(x:@d) }",
	"{ a(x:1)(y:2) }", "{ a } }", "{ { a } }", "{ a } { b }", "{ a } query { b }", "query { a } { b }", "mutation", "subscription { a }", "mutation M @d { a }", "type T { a: Int }",
	"schema { query: Q }", "extend type T { a: Int }", "\"desc\" { a }", "\"desc\" query { a }", "{ a(x:\"\"\"b\"\"\") }", "{ a(x:-) }", "{ a(x:1.) }", "{ a(x:.5) }", "{ a(x:1e) }", "{ a(x:00) }",
	"{ a(x:123abc) }", "{ a(x:1.0e5x:2) }", "{ a(x:\"\\u00\") }", "{ a(x:\"\"\"a\"\"\"\") }", "{ a(x:\"\"\"a\n  b\"\"\") }", "{ true }", "{ null: false }", "{ on }", "{ on: on }", "{ fragment }",
	"query query { query }", "query on { on }", "fragment fragment on on { on }", "query Q($on:on=on @on(on:on)) @on { on:on(on:on) @on ...on2 ... on on { on } }",
	"{ a ... }", "{ ...a ...b }", "{ a, b,, c }", ",{,a,},", "{a}#c", "#c\n{a}", "{a(x:[[[[1]]]])}", "{a(x:{a:{b:{c:[{d:1}]}}})}", "{ a(x: $v y: [$v {k: $v}]) }",
	"query ($v: T = null) { a }", "query ($v: T = E) { a }", "query ($v: T = true) { a }", "query ($v: [[T!]!]! = [[1]]) @a @b { a }",
}

func c05Eval(r *kit.Rec, text string) (viol string, info parseInfo) {
	v, known, info := checkParse("C05", text, false)
	for _, k := range known {
		r.Known(k)
	}
	return v, info
}

func TestC05(t *testing.T) {
	r := kit.New(t, "C05")
	defer r.Finish()
	r.SetRule("inputs: (a) every sequence of up to L lexemes over an 18-lexeme alphabet (" + strings.Join(c05Alphabet, " ") + "), plus sequences up to L+1 whose length-L prefix is a viable prefix of the grammar, and a second alphabet with string tokens spelling keywords; " +
		"(b) trees from the G3 generator rendered three ways (single spaces, minimal separators, random ignored text with comments); (c) single-lexeme mutants (delete, duplicate, swap, substitute) of rendered trees; (d) a catalogue of near misses; (e) wide and deep members of the grammar (18 kinds x 35 sizes from 1 to 4097 straddling powers of two and round decimal numbers); before every parse one earlier, unrelated call with a token limit is made. " +
		"oracle: accepted <=> derivable per the reference recogniser, and on acceptance the projected tree equals the reference tree. non-trivial = accepted by the grammar, or rejected with a viable longest proper prefix / a lexable multi-token input; distinct by text")
	r.Assume("reference lexer + recursive-descent recogniser in harness/ref (self-tested against parser/query_test.yml) encode the October 2021 executable grammar plus the documented fragment-variable extension")
	for _, c := range []string{"enum", "enumB", "near", "wide", "tree", "mutant"} {
		kit.RegisterReplayer("C05", c, func(raw json.RawMessage) string { return parseReplay("C05", false, raw) })
	}
	if r.ReplayIfRequested() {
		return
	}
	for _, in := range c05NearMisses {
		in := in
		r.Begin("near", func() interface{} { return inputCase{in} })
		v, info := c05Eval(r, in)
		r.Case(true, "near:"+in)
		if info.Accepted {
			r.Class("near:accepted-by-grammar")
		} else {
			r.Class("near:rejected-by-grammar")
		}
		if v != "" {
			r.Violation("near", inputCase{in}, "%s", v)
		}
		r.End()
		// the same with a comment between every two tokens: the verdict must not move
		if cv, ok := commentedVariant(in); ok {
			r.Begin("near", func() interface{} { return inputCase{cv} })
			v2, info2 := c05Eval(r, cv)
			r.Case(true, "near-commented:"+in)
			r.Class("near:commented-variant")
			if v2 == "" && info2.Accepted != info.Accepted {
				r.HarnessErrorf("the reference judges %q and its commented variant differently", in)
			}
			if v2 != "" {
				r.Violation("near", inputCase{cv}, "%s", v2)
			}
			r.End()
		}
	}

	for _, kind := range gen.WideQueryKinds {
		for _, n := range gen.WideSizes {
			if strings.HasPrefix(kind, "d-") && n > 1100 {
				continue
			}
			in := gen.WideQuery(kind, n)
			r.Begin("wide", func() interface{} { return inputCase{in} })
			v, info := c05Eval(r, in)
			r.Case(true, sprintf("wide:%s:%d", kind, n))
			r.Class("wide:" + kind)
			if !info.Accepted {
				r.End()
				r.HarnessErrorf("wide family member %s/%d is not derivable for the reference", kind, n)
				return
			}
			if v != "" {
				r.Violation("wide", inputCase{in}, "%s", v)
			}
			r.End()
		}
	}
	if r.Violations() > 0 {
		return
	}

	full := kit.Pick(5, 6)
	evalSeq := func(text string, n int) (string, bool, bool) {
		v, info := c05Eval(r, text)
		return v, info.Accepted || info.Viable, info.Viable
	}
	enumSeq(r, "enum", "", c05Alphabet, full, full+1, evalSeq)
	r.Exhaustive(sprintf("all lexeme sequences of length <= %d over the 18-lexeme alphabet; length %d where the prefix is viable", full, full+1))
	enumSeq(r, "enumB", "", c05AlphabetB, full-1, full, evalSeq)
	r.Exhaustive(sprintf("all lexeme sequences of length <= %d over the second alphabet (string tokens spelling keywords); length %d where the prefix is viable", full-1, full))
	if r.Violations() > 0 {
		return
	}

	r.Rapid("tree", kit.Pick(2500, 60000), func(rt *rapid.T) {
		doc := gen.QueryDoc().Draw(rt, "doc")
		lex := gen.QueryLexemes(doc, gen.Rand(rt))
		want := normDoc(doc)
		texts := []string{gen.JoinPlain(lex), gen.JoinMinimal(lex), gen.JoinRandom(rt, lex, true)}
		for i, text := range texts {
			text := text
			r.Begin("tree", func() interface{} { return inputCase{text} })
			// harness self-consistency: the reference must read back the tree that was rendered
			rp := refParseText([]rune(text), false, ref.LexOpts{}, ref.ParseOpts{})
			if !rp.accept || !sameTree(rp.doc, want) {
				r.End()
				r.HarnessErrorf("rendering %d of a generated tree is not read back by the reference parser: %q: %s", i, text, treeDiff(want, rp.doc))
				rt.Fatalf("harness error")
			}
			v, _ := c05Eval(r, text)
			r.Case(true, text)
			r.Class([]string{"tree:plain", "tree:minimal", "tree:random-ignored"}[i])
			if i == 2 && r.WantSample("tree") {
				r.Sample("tree", text)
			}
			r.End()
			if v != "" {
				r.Failf(rt, "tree", inputCase{text}, "%s", v)
			}
		}
	})

	r.Rapid("mutant", kit.Pick(20000, 400000), func(rt *rapid.T) {
		doc := gen.QueryDoc().Draw(rt, "doc")
		lex := gen.QueryLexemes(doc, gen.Canon)
		lex, op := mutateLexemes(rt, lex, c05MutAlphabet)
		text := gen.JoinPlain(lex)
		if rapid.IntRange(0, 2).Draw(rt, "ignoredtext") == 0 {
			// comments, commas and line breaks between the lexemes: the verdict must not depend on them
			text = gen.JoinRandom(rt, lex, true)
		}
		r.Begin("mutant", func() interface{} { return inputCase{text} })
		defer r.End()
		v, info := c05Eval(r, text)
		r.Case(true, text)
		r.Class("mutant:" + op)
		if info.Accepted {
			r.Class("mutant:still-derivable")
		} else {
			r.Class("mutant:not-derivable")
		}
		if r.WantSample("mutant") {
			r.Sample("mutant", text)
		}
		if v != "" {
			r.Failf(rt, "mutant", inputCase{text}, "%s", v)
		}
	})
}

func parseReplay(prop string, schema bool, raw json.RawMessage) string {
	var c inputCase
	if err := json.Unmarshal(raw, &c); err != nil {
		return "bad replay case: " + err.Error()
	}
	v, _, _ := checkParse(prop, c.Input, schema)
	return v
}

// mutateLexemes applies one token-level mutation (G5).
func mutateLexemes(t *rapid.T, lex []string, alphabet []string) ([]string, string) {
	out := append([]string{}, lex...)
	if len(out) == 0 {
		return out, "none"
	}
	i := rapid.IntRange(0, len(out)-1).Draw(t, "mutpos")
	switch rapid.IntRange(0, 4).Draw(t, "mutop") {
	case 0:
		return append(out[:i], out[i+1:]...), "delete"
	case 1:
		out = append(out[:i+1], out[i:]...)
		return out, "duplicate"
	case 2:
		if i+1 < len(out) {
			out[i], out[i+1] = out[i+1], out[i]
		}
		return out, "swap"
	case 3:
		out[i] = rapid.SampledFrom(alphabet).Draw(t, "subst")
		return out, "substitute"
	default:
		ins := rapid.SampledFrom(alphabet).Draw(t, "ins")
		out = append(out[:i], append([]string{ins}, out[i:]...)...)
		return out, "insert"
	}
}
