package checks

import (
	"encoding/json"
	"fmt"
	"strings"

	"github.com/vektah/gqlparser/v2/ast"
	"pgregory.net/rapid"

	"verif/harness/proj"
)

// c03IgnoredCase: one list of lexemes rendered twice with different ignored text between them.
type c03IgnoredCase struct {
	Lexemes []string `json:"lexemes"`
	A       string   `json:"a"`
	B       string   `json:"b"`
}

var ignoredLexemes = []string{"!", "$", "&", "(", ")", "...", ":", "=", "@", "[", "]", "{", "}", "|", "a", "on", "query", "_x1", "0", "-12", "1.5", "1e3", "-0.5E-2",
	`""`, `"s"`, `"a\"b"`, `"é\n"`, `"""b"""`, `"""` + "\n  x\n   y\n" + `"""`, `"""a\"""b"""`, "#c\n", "# é😀\n"}

var ignoredSeps = []string{" ", "  ", "\t", ",", "\n", "\r", "\r\n", "\uFEFF", " , ", "\n\n", ",\uFEFF,"}

func needsSep(a, b string) bool {
	// two lexemes may be glued only when the pair cannot lex differently: be conservative
	la, fb := a[len(a)-1], b[0]
	isWord := func(c byte) bool {
		return c == '_' || c == '.' || c == '-' || c == '+' || c == '"' || (c >= '0' && c <= '9') || (c >= 'a' && c <= 'z') || (c >= 'A' && c <= 'Z')
	}
	if la == '\n' { // comment lexemes carry their own terminator
		return false
	}
	return isWord(la) && isWord(fb)
}

func genIgnoredPair(t *rapid.T) c03IgnoredCase {
	n := rapid.IntRange(1, 12).Draw(t, "n")
	var c c03IgnoredCase
	for i := 0; i < n; i++ {
		c.Lexemes = append(c.Lexemes, rapid.SampledFrom(ignoredLexemes).Draw(t, "lexeme"))
	}
	render := func(label string) string {
		var sb strings.Builder
		for k := rapid.IntRange(0, 2).Draw(t, label+"lead"); k > 0; k-- {
			sb.WriteString(rapid.SampledFrom(ignoredSeps).Draw(t, label+"leadsep"))
		}
		for i, l := range c.Lexemes {
			if i > 0 {
				k := rapid.IntRange(0, 2).Draw(t, label+"nsep")
				if k == 0 && needsSep(c.Lexemes[i-1], l) {
					k = 1
				}
				for ; k > 0; k-- {
					sb.WriteString(rapid.SampledFrom(ignoredSeps).Draw(t, label+"sep"))
				}
			}
			sb.WriteString(l)
		}
		for k := rapid.IntRange(0, 2).Draw(t, label+"trail"); k > 0; k-- {
			sb.WriteString(rapid.SampledFrom(ignoredSeps).Draw(t, label+"trailsep"))
		}
		return sb.String()
	}
	c.A = render("a")
	c.B = render("b")
	return c
}

// c03IgnoredEval: the two renderings must yield the same sequence of (kind, value), and that
// sequence must have one token per lexeme.
func c03IgnoredEval(c c03IgnoredCase) string {
	ta, ea := proj.LibLex(&ast.Source{Input: c.A})
	tb, eb := proj.LibLex(&ast.Source{Input: c.B})
	if ea != nil || eb != nil {
		return fmt.Sprintf("a rendering of valid lexemes does not lex: %v / %v", ea, eb)
	}
	if len(ta) != len(tb) {
		return fmt.Sprintf("renderings differ in token count: %d vs %d", len(ta), len(tb))
	}
	if len(ta) != len(c.Lexemes)+1 {
		return fmt.Sprintf("%d lexemes gave %d tokens", len(c.Lexemes), len(ta)-1)
	}
	for i := range ta {
		va, vb := ta[i].Value, tb[i].Value
		if ta[i].Kind != tb[i].Kind || va != vb {
			return fmt.Sprintf("token %d differs between renderings: %s %q vs %s %q", i, ta[i].Kind, va, tb[i].Kind, vb)
		}
	}
	return ""
}

func c03ReplayIgnored(raw json.RawMessage) string {
	var c c03IgnoredCase
	if err := json.Unmarshal(raw, &c); err != nil {
		return "bad replay case: " + err.Error()
	}
	return c03IgnoredEval(c)
}
