package checks

import (
	"crypto/sha256"
	"encoding/json"
	"fmt"
	"os"
	"os/exec"
	"strings"
	"testing"

	"github.com/vektah/gqlparser/v2"
	"github.com/vektah/gqlparser/v2/ast"
	"github.com/vektah/gqlparser/v2/gqlerror"
	"github.com/vektah/gqlparser/v2/parser"
	"github.com/vektah/gqlparser/v2/validator"
	"pgregory.net/rapid"

	"verif/harness/gen"
	"verif/harness/kit"
	"verif/harness/ref"
)

// C10 — validation is deterministic and repeatable.

func errDigest(errs gqlerror.List) string {
	type e struct {
		Message    string
		Rule       string
		Locations  []gqlerror.Location
		Path       string
		Extensions map[string]interface{}
	}
	var out []e
	for _, x := range errs {
		out = append(out, e{x.Message, x.Rule, x.Locations, x.Path.String(), x.Extensions})
	}
	b, _ := json.Marshal(out)
	return string(b)
}

// validateFresh: fresh schema load, fresh parse, validate. Returns the digest of the error
// list ("load:<msg>" when the schema does not load).
func validateFresh(c valCase) (digest string, doc *ast.QueryDocument, schema *ast.Schema) {
	s, err := gqlparser.LoadSchema(&ast.Source{Name: "schema.graphql", Input: c.Schema})
	if err != nil {
		ge, _ := err.(*gqlerror.Error)
		if ge != nil {
			return "load:" + errDigest(gqlerror.List{ge}), nil, nil
		}
		return "load:" + err.Error(), nil, nil
	}
	d, err := parser.ParseQuery(&ast.Source{Name: "query.graphql", Input: c.Query})
	if err != nil {
		return "parse:" + err.Error(), nil, s
	}
	return errDigest(validator.Validate(s, d)), d, s
}

func c10Eval(c valCase, reps int) (viol string, nonEmpty bool, first string) {
	v, ne, f, _ := c10EvalK(c, reps)
	return v, ne, f
}

func c10EvalK(c valCase, reps int) (viol string, nonEmpty bool, first string, known []string) {
	var d0 *ast.QueryDocument
	var s0 *ast.Schema
	if p := kit.Safely(func() {
		first, d0, s0 = validateFresh(c)
		for i := 1; i < reps && viol == ""; i++ {
			g, _, _ := validateFresh(c)
			if g != first {
				viol = fmt.Sprintf("run %d of the same texts gives a different error list:\n first: %s\n later: %s", i+1, diffAround(first, g), diffAround(g, first))
			}
		}
		if viol == "" && d0 != nil {
			// validating the already validated tree again
			againList := validator.Validate(s0, d0)
			again := errDigest(againList)
			if again != first && kit.KFOpen("C10", "revalidation-cycle-overlap") && refHasFragmentCycle(c) {
				// recorded deviation: with a fragment cycle, fields that were not yet annotated during the
				// first walk are annotated in the second one and additional merge conflicts are found
				firstList := validator.Validate(s0, mustParse(c.Query))
				if errDigest(withoutRule(firstList, "OverlappingFieldsCanBeMerged")) == errDigest(withoutRule(againList, "OverlappingFieldsCanBeMerged")) {
					known = append(known, "revalidation-cycle-overlap")
					again = first
				}
			}
			if again != first {
				viol = fmt.Sprintf("re-validating the same parsed document gives a different error list:\n first: %s\n again: %s", diffAround(first, again), diffAround(again, first))
			}
		}
	}); p != nil {
		return "", false, "", nil // crashes are C02's business
	}
	return viol, first != "[]" && first != "null", first, known
}

func mustParse(q string) *ast.QueryDocument {
	d, _ := parser.ParseQuery(&ast.Source{Name: "query.graphql", Input: q})
	return d
}

func withoutRule(l gqlerror.List, rule string) gqlerror.List {
	var out gqlerror.List
	for _, e := range l {
		if e.Rule != rule {
			out = append(out, e)
		}
	}
	return out
}

// refHasFragmentCycle: the reference validator reports a fragment cycle for the case.
func refHasFragmentCycle(c valCase) bool {
	r := refParseCase(c)
	if !r.ok {
		return false
	}
	for _, v := range ref.ValidateDoc(r.schema, r.doc, ref.DocOpts{}) {
		if v.Rule == "NoFragmentCycles" {
			return true
		}
	}
	return false
}

func diffAround(a, b string) string {
	i := 0
	for i < len(a) && i < len(b) && a[i] == b[i] {
		i++
	}
	lo := i - 100
	if lo < 0 {
		lo = 0
	}
	return "…" + cut(a, lo, i+160) + "…"
}

func c10Replay(raw json.RawMessage) string {
	var c valCase
	if err := json.Unmarshal(raw, &c); err != nil {
		return "bad replay case: " + err.Error()
	}
	v, _, _ := c10Eval(c, 40)
	return v
}

// misspell changes one letter of one name lexeme of the document so that it lands near
// several candidates of the schema's name pools.
func misspell(rt *rapid.T, lex []string) []string {
	var idx []int
	for i, l := range lex {
		if len(l) > 0 && (l[0] >= 'a' && l[0] <= 'z' || l[0] >= 'A' && l[0] <= 'Z') && l != "on" && l != "query" && l != "fragment" && l != "mutation" && l != "subscription" && l != "true" && l != "false" && l != "null" {
			idx = append(idx, i)
		}
	}
	if len(idx) == 0 {
		return lex
	}
	out := append([]string{}, lex...)
	i := idx[rapid.IntRange(0, len(idx)-1).Draw(rt, "which")]
	w := out[i]
	switch rapid.IntRange(0, 2).Draw(rt, "how") {
	case 0:
		out[i] = w[:len(w)-1] + "z"
	case 1:
		out[i] = w + "x"
	default:
		if len(w) > 1 {
			out[i] = w[:len(w)-1]
		} else {
			out[i] = w + "y"
		}
	}
	return out
}

func genC10Case(rt *rapid.T) (valCase, bool) {
	class := rapid.IntRange(0, 5).Draw(rt, "class")
	if class == 5 {
		// a schema that extends built-in types (the only user text that touches definitions every
		// load starts from) and an introspection document over the extended types, sometimes misspelt
		st := gen.TypedSchema().Draw(rt, "schema")
		for i, n := 0, rapid.IntRange(1, 2).Draw(rt, "nbext"); i < n; i++ {
			gen.ExtendBuiltin(rt, &st)
		}
		q := rapid.SampledFrom([]string{
			`{ __schema { extra types { extra kind } } }`, `{ __type(name: "Query") { extra fields { extra } enumValues { extra2 } } }`,
			`{ __type(name: "Query") { kind fields { extr } enumValues { extra } } }`, `{ __schema { extr types { extra2 } } }`,
			`query ($k: __TypeKind = EXTR) { __typename }`, `query ($k: __TypeKind = EXTRA) { __typename }`, `query ($k: __TypeKind = "EXTRA") { __typename }`,
		}).Draw(rt, "introq")
		return valCase{Schema: renderSchemaTree(st, gen.Canon), Query: q, Class: "extends-built-in"}, true
	}
	if class == 4 {
		d := gen.OverlapDocument(rt, rapid.Bool().Draw(rt, "acyclic"))
		return valCase{Schema: gen.OverlapSchema, Query: gen.JoinPlain(gen.QueryLexemes(d, gen.Canon)), Class: "overlap"}, true
	}
	if class == 3 {
		// two independent schema faults: the load error must not depend on iteration order
		st := gen.TypedSchema().Draw(rt, "schema")
		n := 0
		for i := 0; i < 2; i++ {
			if _, ok := gen.ApplySchemaFault(rt, &st, rapid.IntRange(0, gen.NumSchemaFaults()-1).Draw(rt, "sfault")); ok {
				n++
			}
		}
		return valCase{Schema: renderSchemaTree(st, gen.Canon), Query: "{ __typename }", Class: "two-schema-faults"}, n > 0
	}
	g, ok := genValidationCase(rt, map[int]int{0: 1, 1: 1, 2: 2}[class])
	if !ok {
		return valCase{}, false
	}
	c := g.Case
	if g.Typed != nil && rapid.IntRange(0, 2).Draw(rt, "samefault") == 0 {
		// the same fault several more times, at other sites: several errors of one rule in one
		// document, whose relative order must be reproducible
		idx := rapid.IntRange(0, gen.NumDocFaults()-1).Draw(rt, "which")
		for i, n := 0, rapid.IntRange(2, 4).Draw(rt, "times"); i < n; i++ {
			gen.ApplyDocFault(rt, g.Typed, g.Schema, idx)
		}
		c.Query = gen.JoinPlain(gen.QueryLexemes(g.Typed.Doc, gen.Canon))
		c.Class = "same-fault-repeated"
	}
	if g.Typed != nil && rapid.Bool().Draw(rt, "misspell") {
		lex := gen.QueryLexemes(g.Typed.Doc, gen.Canon)
		for k := rapid.IntRange(1, 2).Draw(rt, "nmiss"); k > 0; k-- {
			lex = misspell(rt, lex)
		}
		c.Query = gen.JoinPlain(lex)
		c.Class = "misspelt"
	}
	return c, true
}

// TestC10Child is the re-executed child: it prints one digest line per case.
func TestC10Child(t *testing.T) {
	path := os.Getenv("VERIF_C10_CASES")
	if path == "" {
		t.Skip("only runs as a child of TestC10")
	}
	b, err := os.ReadFile(path)
	if err != nil {
		t.Fatal(err)
	}
	var cases []valCase
	if err := json.Unmarshal(b, &cases); err != nil {
		t.Fatal(err)
	}
	for i, c := range cases {
		d, _, _ := validateFresh(c)
		fmt.Printf("C10DIGEST %d %x\n", i, sha256.Sum256([]byte(d)))
	}
}

func TestC10(t *testing.T) {
	r := kit.New(t, "C10")
	defer r.Finish()
	r.SetRule("(schema, document) pairs biased to invalid documents (G9 faults, type-blind documents) and to ties (one or two name lexemes misspelt by one letter, landing at equal distance from several candidates of the schema's near-duplicate name pools), plus schemas with two independent faults for LoadSchema errors, dense-overlap documents, and schemas extending built-in types with introspection documents over the extensions. " +
		"oracle: the complete error list (message, rule, locations, path, extensions, order) is identical over N fresh load+parse+validate runs in one process (Go randomises every map iteration), when the same parsed document is validated again, and in 3 freshly started child processes. non-trivial = non-empty error list; distinct by (schema, document) text")
	kit.RegisterReplayer("C10", "pair", c10Replay)
	kit.RegisterReplayer("C10", "corpus", c10Replay)
	kit.RegisterReplayer("C10", "child", c10Replay)
	if r.ReplayIfRequested() {
		return
	}
	reps := kit.Pick(8, 16)
	var forChildren []valCase
	var inProcess []string
	keep := func(c valCase, first string) {
		if len(forChildren) < kit.Pick(300, 3000) {
			forChildren = append(forChildren, c)
			inProcess = append(inProcess, fmt.Sprintf("%x", sha256.Sum256([]byte(first))))
		}
	}
	for _, q := range append(append([]string{}, c10Corpus...), c08Corpus...) {
		c := valCase{Schema: c10Schema, Query: q}
		if !strings.Contains(q, "fragment F on") && !strings.Contains(q, "nme") {
			c.Schema = c08Schema
		}
		r.Begin("corpus", func() interface{} { return c })
		v, ne, first, known := c10EvalK(c, 50)
		for _, k := range known {
			r.Known(k)
		}
		r.End()
		r.Case(ne, "corpus:"+q)
		keep(c, first)
		if v != "" {
			r.Violation("corpus", c, "%s", v)
		}
	}
	if r.Violations() > 0 {
		return
	}
	r.Rapid("pair", kit.Pick(6000, 120000), func(rt *rapid.T) {
		c, ok := genC10Case(rt)
		if !ok {
			rt.Skip("no case")
		}
		r.Begin("pair", func() interface{} { return c })
		defer r.End()
		v, ne, first, known := c10EvalK(c, reps)
		for _, k := range known {
			r.Known(k)
		}
		r.Case(ne, c.Schema+"\x00"+c.Query)
		r.Class("pair:" + c.Class)
		if strings.Contains(first, "Did you mean") {
			r.Class("pair:has-suggestion")
			if strings.Contains(first, " or ") {
				r.Class("pair:suggestion-with-several-candidates")
			}
		}
		if strings.HasPrefix(first, "load:") {
			r.Class("pair:load-error")
		}
		if ne && r.WantSample("pair") {
			r.Sample("pair", c)
		}
		keep(c, first)
		if v != "" {
			r.Failf(rt, "pair", c, "%s", v)
		}
	})
	if t.Failed() {
		return
	}
	// fresh processes
	dir, err := os.MkdirTemp(os.Getenv("VERIF_TMP"), "c10")
	if err != nil {
		r.HarnessErrorf("cannot create temp dir: %v", err)
		return
	}
	defer os.RemoveAll(dir)
	b, _ := json.Marshal(forChildren)
	casesFile := dir + "/cases.json"
	if err := os.WriteFile(casesFile, b, 0o644); err != nil {
		r.HarnessErrorf("cannot write case file: %v", err)
		return
	}
	for child := 0; child < 3; child++ {
		cmd := exec.Command(os.Args[0], "-test.run", "^TestC10Child$", "-test.v")
		cmd.Env = append(os.Environ(), "VERIF_C10_CASES="+casesFile, "VERIF_OUT=")
		out, err := cmd.Output()
		if err != nil {
			r.HarnessErrorf("child process failed: %v", err)
			return
		}
		n := 0
		for _, line := range strings.Split(string(out), "\n") {
			var i int
			var d string
			if _, err := fmt.Sscanf(line, "C10DIGEST %d %s", &i, &d); err == nil && i < len(inProcess) {
				n++
				if d != inProcess[i] {
					r.Violation("child", forChildren[i], "a freshly started process computes a different error list than this process for the same texts")
					return
				}
			}
		}
		if n != len(forChildren) {
			r.HarnessErrorf("child reported %d of %d digests", n, len(forChildren))
			return
		}
		r.ClassN("child-process-comparisons", int64(n))
	}
}

const c10Schema = `
type Query { name: String nam: String nme: String t: T q: Query a: Int b: Int }
type T { a: Int } type Ta { a: Int } type Tb { a: Int } type Tc { a: Int } type Td { a: Int } type Te { a: Int } type Tf { a: Int }
enum E { RED RAD ROD RID }
`

var c10Corpus = []string{
	`{ t { a } } fragment F on Tx { a }`, `{ ...F } fragment F on Tz { a }`, `{ nmae }`, `{ nae }`, `{ ...F } fragment F on T { a }`, `{ ...F } fragment F on Query { q { x: a ...F } x: b }`, `{ t { a } ... on Tq { a } }`, `query ($v: Tz) { t { a } }`,
}
