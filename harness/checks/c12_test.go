package checks

import (
	"bytes"
	"encoding/json"
	"fmt"
	"strconv"
	"strings"
	"testing"

	"github.com/vektah/gqlparser/v2/ast"
	"github.com/vektah/gqlparser/v2/formatter"
	"github.com/vektah/gqlparser/v2/parser"
	"pgregory.net/rapid"

	"verif/harness/gen"
	"verif/harness/kit"
	"verif/harness/proj"
	"verif/harness/ref"
)

// C12 — formatting an executable document and parsing it back (DESIGN.md 6/C12).

var fmtIndents = []string{"", " ", "  ", "\t", "\t\t", " \t"}

type fmtConfig struct {
	Indent     string `json:"indent"`
	Comments   bool   `json:"comments"`
	Compacted  bool   `json:"compacted"`
	Builtin    bool   `json:"builtin"`
	NoDesc     bool   `json:"no_description"`
	DefaultInd bool   `json:"default_indent"`
}

func (c fmtConfig) options() []formatter.FormatterOption {
	var o []formatter.FormatterOption
	if !c.DefaultInd {
		o = append(o, formatter.WithIndent(c.Indent))
	}
	if c.Comments {
		o = append(o, formatter.WithComments())
	}
	if c.Compacted {
		o = append(o, formatter.WithCompacted())
	}
	if c.Builtin {
		o = append(o, formatter.WithBuiltin())
	}
	if c.NoDesc {
		o = append(o, formatter.WithoutDescription())
	}
	return o
}

func allFmtConfigs() []fmtConfig {
	var out []fmtConfig
	for m := 0; m < 16; m++ {
		for _, ind := range fmtIndents {
			out = append(out, fmtConfig{Indent: ind, Comments: m&1 != 0, Compacted: m&2 != 0, Builtin: m&4 != 0, NoDesc: m&8 != 0})
		}
		out = append(out, fmtConfig{DefaultInd: true, Comments: m&1 != 0, Compacted: m&2 != 0, Builtin: m&4 != 0, NoDesc: m&8 != 0})
	}
	return out
}

func formatQuery(d *ast.QueryDocument, c fmtConfig) (out string, p *kit.Panic) {
	p = kit.Safely(func() {
		var buf bytes.Buffer
		formatter.NewFormatter(&buf, c.options()...).FormatQueryDocument(d)
		out = buf.String()
	})
	return
}

// normValue: a block string and a quoted string with the same value are the same value.
func normValueKinds(v *ref.Value) {
	if v == nil {
		return
	}
	if v.Kind == "Block" {
		v.Kind = "String"
	}
	for _, i := range v.Items {
		normValueKinds(i)
	}
	for _, f := range v.Fields {
		normValueKinds(f.Value)
	}
}

func normDirs(ds []*ref.Directive) {
	for _, d := range ds {
		for _, a := range d.Args {
			normValueKinds(a.Value)
		}
	}
}

func normVars(vs []*ref.VarDef, dropDirs bool) {
	for _, v := range vs {
		normValueKinds(v.Default)
		normDirs(v.Directives)
		if dropDirs {
			v.Directives = nil
		}
	}
}

func normSelsValues(ss []*ref.Selection) {
	for _, s := range ss {
		for _, a := range s.Args {
			normValueKinds(a.Value)
		}
		normDirs(s.Directives)
		normSelsValues(s.Sels)
	}
}

// projForRoundTrip projects a parsed document for comparison across a format/parse cycle.
func projForRoundTrip(d *ast.QueryDocument, dropVarDirs bool) *ref.Doc {
	p := proj.Doc(d)
	for _, o := range p.Ops {
		normVars(o.Vars, dropVarDirs)
		normDirs(o.Directives)
		normSelsValues(o.Sels)
	}
	for _, f := range p.Frags {
		normVars(f.Vars, dropVarDirs)
		normDirs(f.Directives)
		normSelsValues(f.Sels)
	}
	return p
}

type c12Case struct {
	Input  string    `json:"input"`
	Config fmtConfig `json:"config"`
}

// goQuoteBreaks reports whether Go's strconv.Quote renders v with an escape that is not a
// GraphQL escape (the signature of finding string-escapes): the quoted form does not lex
// back to v under the reference lexer.
func goQuoteBreaks(v string) bool {
	q := strconv.Quote(v)
	res := ref.Lex([]rune(q), ref.LexOpts{})
	return !(res.OK && len(res.Toks) == 2 && res.Toks[0].Kind == ref.String && res.Toks[0].Value == v)
}

func valueAny(v *ref.Value, pred func(string) bool) bool {
	if v == nil {
		return false
	}
	if (v.Kind == "String" || v.Kind == "Block") && pred(v.Raw) {
		return true
	}
	for _, i := range v.Items {
		if valueAny(i, pred) {
			return true
		}
	}
	for _, f := range v.Fields {
		if valueAny(f.Value, pred) {
			return true
		}
	}
	return false
}

func dirsAny(ds []*ref.Directive, pred func(string) bool) bool {
	for _, d := range ds {
		for _, a := range d.Args {
			if valueAny(a.Value, pred) {
				return true
			}
		}
	}
	return false
}

func selsAny(ss []*ref.Selection, pred func(string) bool) bool {
	for _, s := range ss {
		for _, a := range s.Args {
			if valueAny(a.Value, pred) {
				return true
			}
		}
		if dirsAny(s.Directives, pred) || selsAny(s.Sels, pred) {
			return true
		}
	}
	return false
}

func varsAny(vs []*ref.VarDef, pred func(string) bool) bool {
	for _, v := range vs {
		if valueAny(v.Default, pred) || dirsAny(v.Directives, pred) {
			return true
		}
	}
	return false
}

// docAnyString: does any string value of the document satisfy pred?
func docAnyString(d *ref.Doc, pred func(string) bool) bool {
	for _, o := range d.Ops {
		if varsAny(o.Vars, pred) || dirsAny(o.Directives, pred) || selsAny(o.Sels, pred) {
			return true
		}
	}
	for _, f := range d.Frags {
		if varsAny(f.Vars, pred) || dirsAny(f.Directives, pred) || selsAny(f.Sels, pred) {
			return true
		}
	}
	return false
}

func c12Eval(c c12Case) (viol string, known []string) {
	d, err := parser.ParseQuery(&ast.Source{Input: c.Input})
	if err != nil {
		return "", nil // not a document
	}
	want := projForRoundTrip(d, false)
	out, pan := formatQuery(d, c.Config)
	if pan != nil {
		return "formatter panicked: " + pan.Value + " at " + pan.Site, nil
	}
	d2, err := parser.ParseQuery(&ast.Source{Input: out})
	if err != nil {
		// explained by the escaping finding? then the offending lexeme is a Go escape
		if kit.KFOpen("C12", "string-escapes") && docAnyString(want, goQuoteBreaks) {
			return "", []string{"string-escapes"}
		}
		return fmt.Sprintf("formatted text does not parse: %v\n--- formatted ---\n%s", err, out), nil
	}
	got := projForRoundTrip(d2, false)
	if !sameTree(want, got) {
		if kit.KFOpen("C12", "vardef-directives-dropped") && sameTree(projForRoundTrip(d, true), projForRoundTrip(d2, true)) {
			known = append(known, "vardef-directives-dropped")
		} else {
			return "re-parsed document differs: " + treeDiff(want, got) + "\n--- formatted ---\n" + out, nil
		}
	}
	out2, pan := formatQuery(d2, c.Config)
	if pan != nil {
		return "formatter panicked on the re-parsed document: " + pan.Value, nil
	}
	if out2 != out {
		return fmt.Sprintf("not a fixpoint:\n--- first ---\n%s\n--- second ---\n%s", out, out2), known
	}
	return "", known
}

func c12Replay(raw json.RawMessage) string {
	var c c12Case
	if err := json.Unmarshal(raw, &c); err != nil {
		return "bad replay case: " + err.Error()
	}
	v, _ := c12Eval(c)
	return v
}

func c12Interesting(text string) bool {
	return strings.Contains(text, `\`) || strings.Contains(text, "@") || strings.Contains(text, "fragment")
}

func TestC12(t *testing.T) {
	r := kit.New(t, "C12")
	defer r.Finish()
	r.SetRule("G3 executable trees (hostile string contents, block strings, directives in every position, fragment variables, comments) rendered with random ignored text and comments, parsed, then formatted under ALL 16 option subsets x 7 indents (6 explicit whitespace indents + default); wide and deep members of the grammar (18 kinds, sizes up to 1025 quick / 4097 thorough) under three configurations. " +
		"oracle: formatted text parses; projection equal (block string == quoted string of equal value, alias==name == no alias); string values byte for byte; format(parse(format(d))) == format(d). non-trivial = document with an escape, a directive or a fragment; distinct by (text, config)")
	kit.RegisterReplayer("C12", "doc", c12Replay)
	kit.RegisterReplayer("C12", "corpus", c12Replay)
	if r.ReplayIfRequested() {
		return
	}
	configs := allFmtConfigs()
	r.Exhaustive(fmt.Sprintf("all %d formatter configurations (16 option subsets x 7 indents) for every document", len(configs)))
	evalAll := func(check, text string, fail func(c c12Case, v string)) {
		for _, cfg := range configs {
			c := c12Case{Input: text, Config: cfg}
			r.Begin(check, func() interface{} { return c })
			v, known := c12Eval(c)
			r.End()
			for _, k := range known {
				r.Known(k)
			}
			r.Case(c12Interesting(text), fmt.Sprintf("%s\x00%v", text, cfg))
			if v != "" {
				fail(c, v)
				return
			}
		}
	}
	for _, in := range c12Corpus {
		evalAll("corpus", in, func(c c12Case, v string) { r.Violation("corpus", c, "%s", v) })
	}
	// wide and deep members of the grammar (sizes straddling round thresholds), three configurations each
	kit.RegisterReplayer("C12", "wide", c12Replay)
	wideCfgs := []fmtConfig{{DefaultInd: true}, {Indent: "", Comments: true, Compacted: true}, {Indent: " \t", Comments: true}}
	for _, kind := range gen.WideQueryKinds {
		for _, n := range kit.PickInts([]int{1, 17, 129, 501, 1025}, gen.WideSizes) {
			if strings.HasPrefix(kind, "d-") && n > 600 {
				continue
			}
			text := gen.WideQuery(kind, n)
			for _, cfg := range wideCfgs {
				c := c12Case{Input: text, Config: cfg}
				r.Begin("wide", func() interface{} { return c })
				v, known := c12Eval(c)
				r.End()
				for _, k := range known {
					r.Known(k)
				}
				r.Case(true, fmt.Sprintf("wide:%s:%d:%v", kind, n, cfg))
				r.Class("wide:" + kind)
				if v != "" {
					r.Violation("wide", c, "%s", cut(v, 0, 600))
					break
				}
			}
		}
	}
	if r.Violations() > 0 {
		return
	}
	r.Rapid("doc", kit.Pick(600, 20000), func(rt *rapid.T) {
		doc := gen.QueryDoc().Draw(rt, "doc")
		text := gen.JoinRandom(rt, gen.QueryLexemes(doc, gen.Rand(rt)), true)
		if r.WantSample("doc") {
			r.Sample("doc", text)
		}
		evalAll("doc", text, func(c c12Case, v string) { r.Failf(rt, "doc", c, "%s", v) })
	})
}

var c12Corpus = []string{
	`query ($a: Int @d, $b: [T!]! = [1] @e(x: 1) @f) { a }`,
	// adjacent runes that each need an escape when printed
	"{ a(x: \"\uFEFF\uFFFE\", y: \"\uE000\uE001\", z: \"\u0001\u0002\", w: \"\uFFFF\uFFFF\") }", `{ a(x: "\uFEFF\uFFFE", y: "\uE000\uF8FF") }`,
	`{ a(x: "\u0007") }`, `{ a(x: "\u007f") }`, `{ a(x: "\u000b") }`, "{ a(x: \"\U000E0001\") }", `{ a(x: "­​ \uFEFF") }`, `{ a(x: "\"\\\/\b\f\n\r\t") }`,
	`{ a(x: """a"b\""" """) }`, "{ a(x: \"\"\"  l1\n    l2\n\"\"\") }", `fragment F($v: Int = 1 @d) on T @e { ...G @h ... on T @i { a } ... @j { b } }`,
	`query Q { a: a b: c ...F ... { d } }`, `subscription S @a(x: {k: [1, {l: $v}], m: null, n: E, o: true, p: 1.5e3}) { a }`, "# c\nquery #c2\nQ #c3\n{ #c4\n a #c5\n}#c6",
	`{ a(x: "😀é") }`, `mutation { on: on(on: on) @on }`, `{ a @include(if: $v) @skip(if: false) { b } }`,
}
