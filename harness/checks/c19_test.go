package checks

import (
	"fmt"
	"encoding/json"
	"strings"
	"testing"

	"github.com/vektah/gqlparser/v2/ast"
	"github.com/vektah/gqlparser/v2/parser"
	"pgregory.net/rapid"

	"verif/harness/gen"
	"verif/harness/kit"
	"verif/harness/proj"
)

// C19 — executable documents survive a JSON encode/decode round trip (DESIGN.md 6/C19).

func c19Eval(text string) (viol string, nested bool) {
	d, err := parser.ParseQuery(&ast.Source{Input: text})
	if err != nil {
		return "", false
	}
	want := proj.Doc(d)
	var b []byte
	var d2 ast.QueryDocument
	if p := kit.Safely(func() {
		b, err = json.Marshal(d)
		if err == nil {
			err = json.Unmarshal(b, &d2)
		}
	}); p != nil {
		return "JSON round trip panicked: " + p.Value + " at " + p.Site, false
	}
	if err != nil {
		return "JSON round trip failed: " + err.Error(), false
	}
	got := proj.Doc(&d2)
	nested = strings.Contains(text, "...")
	if !sameTree(want, got) {
		return "decoded document differs: " + treeDiff(want, got), nested
	}
	// a second trip must be stable as well
	b2, err := json.Marshal(&d2)
	if err != nil {
		return "re-encoding the decoded document failed: " + err.Error(), nested
	}
	var d3 ast.QueryDocument
	if err := json.Unmarshal(b2, &d3); err != nil {
		return "decoding the re-encoded document failed: " + err.Error(), nested
	}
	if !sameTree(want, proj.Doc(&d3)) {
		return "second round trip differs: " + treeDiff(want, proj.Doc(&d3)), nested
	}
	return "", nested
}

func TestC19(t *testing.T) {
	r := kit.New(t, "C19")
	defer r.Finish()
	r.SetRule("parsed G3 executable documents (all three selection kinds at every depth and order, directives and arguments on each, nested values, fragment variables; in half of them a third of all names and strings replaced by the member names of the JSON encoding itself: Alias, TypeCondition, Name, SelectionSet, ...) and the repository's example queries. " +
		"oracle: json.Unmarshal(json.Marshal(doc)) succeeds and the projection (positions and comments excluded) is equal; a second trip is stable. non-trivial = document with a fragment spread or inline fragment; distinct by text")
	replay := func(raw json.RawMessage) string {
		var c inputCase
		_ = json.Unmarshal(raw, &c)
		v, _ := c19Eval(c.Input)
		return v
	}
	kit.RegisterReplayer("C19", "doc", replay)
	kit.RegisterReplayer("C19", "seed", replay)
	if r.ReplayIfRequested() {
		return
	}
	for _, s := range append(repoSeeds(), c12Corpus...) {
		s := s
		r.Begin("seed", func() interface{} { return inputCase{s} })
		v, nt := c19Eval(s)
		r.End()
		r.Case(nt, s)
		if v != "" {
			r.Violation("seed", inputCase{s}, "%s", v)
			if r.Violations() > 2 {
				return
			}
		}
	}
	for _, kind := range gen.WideQueryKinds {
		for _, n := range kit.PickInts([]int{1, 17, 129, 501, 1025}, gen.WideSizes) {
			if strings.HasPrefix(kind, "d-") && n > 600 {
				continue
			}
			s := gen.WideQuery(kind, n)
			r.Begin("seed", func() interface{} { return inputCase{s} })
			v, _ := c19Eval(s)
			r.End()
			r.Case(true, fmt.Sprintf("wide:%s:%d", kind, n))
			r.Class("wide:" + kind)
			if v != "" {
				r.Violation("seed", inputCase{s}, "%s", cut(v, 0, 600))
				return
			}
		}
	}
	r.Rapid("doc", kit.Pick(4000, 300000), func(rt *rapid.T) {
		doc := gen.QueryDoc().Draw(rt, "doc")
		if rapid.Bool().Draw(rt, "jsonnames") {
			// names spelt like the member names of the JSON encoding itself
			gen.RenameDoc(rt, doc, gen.JSONMemberNames, 3)
		}
		text := gen.JoinPlain(gen.QueryLexemes(doc, gen.Rand(rt)))
		r.Begin("doc", func() interface{} { return inputCase{text} })
		defer r.End()
		v, nt := c19Eval(text)
		r.Case(nt, text)
		if strings.Contains(text, "... on") || strings.Contains(text, "... {") || strings.Contains(text, "... @") {
			r.Class("doc:inline-fragment")
		}
		if nt && r.WantSample("doc") {
			r.Sample("doc", text)
		}
		if v != "" {
			r.Failf(rt, "doc", inputCase{text}, "%s", v)
		}
	})
}
