package checks

import (
	"encoding/json"
	"fmt"
	"os"
	"path/filepath"
	"runtime"
	"sort"
	"strconv"
	"strings"
	"sync"
	"sync/atomic"

	"verif/harness/kit"
)

func sprintf(f string, a ...interface{}) string { return fmt.Sprintf(f, a...) }

func quoteAll(l []string) []string {
	out := make([]string, len(l))
	for i, s := range l {
		out[i] = strconv.QuoteToASCII(s)
	}
	return out
}

type inputCase struct {
	Input string `json:"input"`
}

func workers() int {
	n := runtime.GOMAXPROCS(0)
	if n > 16 {
		n = 16
	}
	if n < 1 {
		n = 1
	}
	return n
}

// enumAll evaluates eval on prefix+s+suffix for every string s of length <= maxLen over alpha.
// The space is split into jobs by the first two symbols; job k belongs to shard k mod nshards.
// Every string is visited exactly once across shards, so cases are distinct by construction.
func enumAll(r *kit.Rec, check string, alpha []string, maxLen int, prefix, suffix string, eval func(s string) (viol string, nontrivial bool)) {
	shard, nshards := kit.Shard()
	type job struct{ a, b int }
	var jobs []job
	if shard == 0 {
		jobs = append(jobs, job{-1, -1}) // lengths 0 and 1
	}
	k := 0
	for a := range alpha {
		for b := range alpha {
			if k%nshards == shard && maxLen >= 2 {
				jobs = append(jobs, job{a, b})
			}
			k++
		}
	}
	ch := make(chan job, len(jobs))
	for _, j := range jobs {
		ch <- j
	}
	close(ch)
	var nviol atomic.Int32
	var sample atomic.Int32
	var wg sync.WaitGroup
	for w := 0; w < workers(); w++ {
		wg.Add(1)
		go func() {
			defer wg.Done()
			var evals, nontriv int64
			one := func(s string) {
				full := prefix + s + suffix
				v, nt := eval(full)
				evals++
				if nt {
					nontriv++
					if evals%9973 == 1 && sample.Add(1) <= 3 {
						r.Sample(check, full)
					}
				}
				if v != "" && nviol.Add(1) <= 3 {
					r.Violation(check, inputCase{full}, "%s", v)
				}
			}
			var rec func(cur *strings.Builder, depth int)
			rec = func(cur *strings.Builder, depth int) {
				one(cur.String())
				if depth == maxLen || nviol.Load() > 3 {
					return
				}
				n := cur.Len()
				for _, sym := range alpha {
					cur.WriteString(sym)
					rec(cur, depth+1)
					tmp := cur.String()[:n]
					cur.Reset()
					cur.WriteString(tmp)
				}
			}
			for j := range ch {
				if j.a < 0 {
					one("")
					if maxLen >= 1 {
						for _, sym := range alpha {
							one(sym)
						}
					}
					continue
				}
				var sb strings.Builder
				sb.WriteString(alpha[j.a])
				sb.WriteString(alpha[j.b])
				rec(&sb, 2)
			}
			r.AddEnum(evals, nontriv)
		}()
	}
	wg.Wait()
}

// enumSeq evaluates eval on every sequence of lexemes (joined by single spaces) of length
// <= fullLen over alpha, and on sequences up to viableLen whose prefix of length fullLen (and
// every longer proper prefix) is a viable prefix according to eval. Jobs are split by the
// first two lexemes; job k belongs to shard k mod nshards.
func enumSeq(r *kit.Rec, check, prefix string, alpha []string, fullLen, viableLen int, eval func(text string, n int) (viol string, nontrivial, viable bool)) {
	shard, nshards := kit.Shard()
	type job struct{ a, b int }
	var jobs []job
	if shard == 0 {
		jobs = append(jobs, job{-1, -1})
	}
	k := 0
	for a := range alpha {
		for b := range alpha {
			if k%nshards == shard && fullLen >= 2 {
				jobs = append(jobs, job{a, b})
			}
			k++
		}
	}
	ch := make(chan job, len(jobs))
	for _, j := range jobs {
		ch <- j
	}
	close(ch)
	var nviol, sample atomic.Int32
	var wg sync.WaitGroup
	for w := 0; w < workers(); w++ {
		wg.Add(1)
		go func() {
			defer wg.Done()
			var evals, nontriv, extended int64
			one := func(text string, n int) bool {
				if prefix != "" {
					text = prefix + " " + text
				}
				v, nt, viable := eval(text, n)
				evals++
				if n > fullLen {
					extended++
				}
				if nt {
					nontriv++
					if nontriv%4099 == 1 && sample.Add(1) <= 3 {
						r.Sample(check, text)
					}
				}
				if v != "" && nviol.Add(1) <= 3 {
					r.Violation(check, inputCase{text}, "%s", v)
				}
				return viable
			}
			var rec func(cur string, depth int)
			rec = func(cur string, depth int) {
				viable := one(cur, depth)
				if nviol.Load() > 3 || depth >= viableLen || (depth >= fullLen && !viable) {
					return
				}
				for _, sym := range alpha {
					rec(cur+" "+sym, depth+1)
				}
			}
			for j := range ch {
				if j.a < 0 {
					one("", 0)
					if fullLen >= 1 {
						for _, sym := range alpha {
							one(sym, 1)
						}
					}
					continue
				}
				rec(alpha[j.a]+" "+alpha[j.b], 2)
			}
			r.AddEnum(evals, nontriv)
			r.ClassN(check+":beyond-full-length(viable-prefix extension)", extended)
		}()
	}
	wg.Wait()
}

// corpusValCases loads saved (schema, document) cases of a property from harness/corpus/<id>/:
// witnesses of repaired findings and shrunk past failures, replayed first in every run.
func corpusValCases(prop string) []valCase {
	dir := filepath.Join(kit.VerifDir(), "harness", "corpus", prop)
	files, _ := filepath.Glob(filepath.Join(dir, "*.json"))
	sort.Strings(files)
	var out []valCase
	for _, f := range files {
		b, err := os.ReadFile(f)
		if err != nil {
			continue
		}
		var c valCase
		if json.Unmarshal(b, &c) == nil && c.Schema != "" {
			out = append(out, c)
		}
	}
	return out
}
