package checks

import (
	"bytes"
	"encoding/json"
	"fmt"
	"strings"
	"testing"

	"github.com/vektah/gqlparser/v2"
	"github.com/vektah/gqlparser/v2/ast"
	"github.com/vektah/gqlparser/v2/formatter"
	"github.com/vektah/gqlparser/v2/parser"
	"pgregory.net/rapid"

	"verif/harness/gen"
	"verif/harness/kit"
	"verif/harness/proj"
	"verif/harness/ref"
)

// C13 — formatting a schema (document or loaded) and loading it back preserves it.

func formatSchemaDoc(d *ast.SchemaDocument, c fmtConfig) (out string, p *kit.Panic) {
	p = kit.Safely(func() {
		var buf bytes.Buffer
		formatter.NewFormatter(&buf, c.options()...).FormatSchemaDocument(d)
		out = buf.String()
	})
	return
}

func formatSchema(s *ast.Schema, c fmtConfig) (out string, p *kit.Panic) {
	p = kit.Safely(func() {
		var buf bytes.Buffer
		formatter.NewFormatter(&buf, c.options()...).FormatSchema(s)
		out = buf.String()
	})
	return
}

func normArgDefs(as []*ref.ArgDef, noDesc bool) {
	for _, a := range as {
		normValueKinds(a.Default)
		normDirs(a.Directives)
		if noDesc {
			a.Desc = ""
		}
	}
}

// normSchemaDoc: block == quoted strings; schema blocks merged as the formatter merges them.
func normSchemaDoc(d *ref.SchemaDoc, noDesc bool) *ref.SchemaDoc {
	merge := func(l []*ref.SchemaDef) []*ref.SchemaDef {
		if len(l) == 0 {
			return nil
		}
		m := &ref.SchemaDef{}
		for _, s := range l {
			m.Desc += s.Desc
			m.Directives = append(m.Directives, s.Directives...)
			m.Ops = append(m.Ops, s.Ops...)
		}
		normDirs(m.Directives)
		if noDesc {
			m.Desc = ""
		}
		return []*ref.SchemaDef{m}
	}
	d.Schemas = merge(d.Schemas)
	d.SchemaExts = merge(d.SchemaExts)
	for _, x := range d.Directives {
		normArgDefs(x.Args, noDesc)
		if noDesc {
			x.Desc = ""
		}
	}
	for _, t := range append(append([]*ref.TypeDef{}, d.Defs...), d.Exts...) {
		normDirs(t.Directives)
		if noDesc {
			t.Desc = ""
		}
		for _, f := range t.Fields {
			normArgDefs(f.Args, noDesc)
			normValueKinds(f.Default)
			normDirs(f.Directives)
			if noDesc {
				f.Desc = ""
			}
		}
		for _, e := range t.EnumValues {
			normDirs(e.Directives)
			if noDesc {
				e.Desc = ""
			}
		}
	}
	return d
}

type c13DocCase struct {
	Input  string    `json:"input"`
	Config fmtConfig `json:"config"`
}

func c13DocEval(c c13DocCase) string {
	d, err := parser.ParseSchema(&ast.Source{Input: c.Input})
	if err != nil {
		return ""
	}
	want := normSchemaDoc(proj.SchemaDoc(d), c.Config.NoDesc)
	out, pan := formatSchemaDoc(d, c.Config)
	if pan != nil {
		return "formatter panicked: " + pan.Value + " at " + pan.Site
	}
	d2, err := parser.ParseSchema(&ast.Source{Input: out})
	if err != nil {
		return fmt.Sprintf("formatted text does not parse: %v\n--- formatted ---\n%s", err, out)
	}
	got := normSchemaDoc(proj.SchemaDoc(d2), c.Config.NoDesc)
	if !sameTree(want, got) {
		return "re-parsed document differs: " + treeDiff(want, got) + "\n--- formatted ---\n" + out
	}
	out2, pan := formatSchemaDoc(d2, c.Config)
	if pan != nil {
		return "formatter panicked on the re-parsed document: " + pan.Value
	}
	if out2 != out && !commaFindingExplains(c.Config, out, out2) {
		return fmt.Sprintf("not a fixpoint:\n--- first ---\n%s\n--- second ---\n%s", out, out2)
	}
	return ""
}

// commaFindingExplains: recorded deviation no-description-comma - with descriptions switched
// off the two outputs may differ only in commas between argument definitions.
func commaFindingExplains(cfg fmtConfig, out, out2 string) bool {
	if !cfg.NoDesc || !kit.KFOpen("C13", "no-description-comma") {
		return false
	}
	strip := func(s string) string { return strings.ReplaceAll(s, ",", "") }
	return strip(out) == strip(out2)
}

type c13SchemaCase struct {
	Input  string    `json:"input"`
	Config fmtConfig `json:"config"`
}

func stripDescriptions(s *ast.Schema) {
	s.Description = ""
	for _, t := range s.Types {
		t.Description = ""
		for _, f := range t.Fields {
			f.Description = ""
			for _, a := range f.Arguments {
				a.Description = ""
			}
		}
		for _, e := range t.EnumValues {
			e.Description = ""
		}
	}
	for _, d := range s.Directives {
		d.Description = ""
		for _, a := range d.Arguments {
			a.Description = ""
		}
	}
}

// canonForReload: canonical form with block == quoted string values.
func canonForReload(s *ast.Schema) string {
	// (schema directives are embedded as JSON strings, hence the escaped variant)
	return strings.ReplaceAll(strings.ReplaceAll(canonSchema(s), `"k":"Block"`, `"k":"String"`), `\"k\":\"Block\"`, `\"k\":\"String\"`)
}

func c13SchemaEval(c c13SchemaCase) string {
	v, _ := c13SchemaEvalK(c)
	return v
}

func c13SchemaEvalK(c c13SchemaCase) (viol string, known []string) {
	s1, err := gqlparser.LoadSchema(&ast.Source{Name: "in.graphql", Input: c.Input})
	if err != nil {
		return "", nil
	}
	out, pan := formatSchema(s1, c.Config)
	if pan != nil {
		return "formatter panicked: " + pan.Value + " at " + pan.Site, nil
	}
	var s2 *ast.Schema
	if p := kit.Safely(func() { s2, err = gqlparser.LoadSchema(&ast.Source{Name: "out.graphql", Input: out}) }); p != nil {
		return "loading the formatted schema panicked: " + p.Value, nil
	}
	if err != nil {
		return fmt.Sprintf("formatted schema does not load: %v\n--- formatted ---\n%s", err, out), nil
	}
	out2, _ := formatSchema(s2, c.Config)
	if c.Config.NoDesc {
		stripDescriptions(s1)
		stripDescriptions(s2)
	}
	a, b := canonForReload(s1), canonForReload(s2)
	if a != b && kit.KFOpen("C13", "schema-description-dropped") && s1.Description != "" && s2.Description == "" {
		// the recorded deviation: everything but the schema's own description must survive
		s1.Description = ""
		if a = canonForReload(s1); a == b {
			known = append(known, "schema-description-dropped")
		}
	}
	if a != b {
		i := 0
		for i < len(a) && i < len(b) && a[i] == b[i] {
			i++
		}
		lo := i - 100
		if lo < 0 {
			lo = 0
		}
		return fmt.Sprintf("reloaded schema differs near …%s… vs …%s…\n--- formatted ---\n%s", cut(a, lo, i+100), cut(b, lo, i+100), out), nil
	}
	if out2 != out {
		if commaFindingExplains(c.Config, out, out2) {
			return "", append(known, "no-description-comma")
		}
		return fmt.Sprintf("not a fixpoint:\n--- first ---\n%s\n--- second ---\n%s", out, out2), known
	}
	return "", known
}

func TestC13(t *testing.T) {
	r := kit.New(t, "C13")
	defer r.Finish()
	r.SetRule("document level: G3 type-system trees (hostile descriptions and default values, all definition kinds and extensions, several schema blocks) parsed and formatted under all 16 option subsets x 7 indents; re-parse, compare projections (schema blocks merged as the formatter merges them; descriptions dropped iff switched off), fixpoint. " +
		"schema level: G6 schemas (custom root names, default-named query with custom mutation, non-root types named Mutation/Subscription/Query, schema directives and description, repeatable directives, described arguments) loaded, FormatSchema under every option subset without WithBuiltin x 7 indents, reloaded, canonical schema equal, fixpoint. " +
		"non-trivial = description with quote/backslash/blank edge, or non-default roots; distinct by (text, config)")
	r.Assume("field names starting with __ are outside the document-level domain: the formatter hides them on purpose (they are how FormatSchema omits the introspection fields) and no loadable schema has them")
	r.Assume("FormatSchema(WithBuiltin) re-declares the prelude and cannot be loaded through gqlparser.LoadSchema by construction of the API; for that option only the document-level round trip is demanded")
	kit.RegisterReplayer("C13", "doc", func(raw json.RawMessage) string {
		var c c13DocCase
		_ = json.Unmarshal(raw, &c)
		return c13DocEval(c)
	})
	kit.RegisterReplayer("C13", "corpus", func(raw json.RawMessage) string {
		var c c13SchemaCase
		_ = json.Unmarshal(raw, &c)
		return c13SchemaEval(c)
	})
	kit.RegisterReplayer("C13", "schema", func(raw json.RawMessage) string {
		var c c13SchemaCase
		_ = json.Unmarshal(raw, &c)
		return c13SchemaEval(c)
	})
	if r.ReplayIfRequested() {
		return
	}
	configs := allFmtConfigs()
	var loadConfigs []fmtConfig
	for _, c := range configs {
		if !c.Builtin {
			loadConfigs = append(loadConfigs, c)
		}
	}
	r.Exhaustive(fmt.Sprintf("all %d formatter configurations per document; all %d configurations without WithBuiltin per loaded schema", len(configs), len(loadConfigs)))
	interesting := func(text string) bool {
		return strings.Contains(text, `\`) || strings.Contains(text, `"""`) || strings.Contains(text, "schema")
	}
	for _, in := range c13Corpus {
		for _, cfg := range loadConfigs {
			c := c13SchemaCase{Input: in, Config: cfg}
			r.Begin("corpus", func() interface{} { return c })
			v, known := c13SchemaEvalK(c)
			for _, k := range known {
				r.Known(k)
			}
			r.End()
			r.Case(true, fmt.Sprintf("corpus:%s\x00%v", in, cfg))
			if v != "" {
				r.Violation("corpus", c, "%s", v)
				break
			}
		}
	}
	// document-level witnesses (parsed, never loaded)
	for _, in := range c13DocCorpus {
		for _, cfg := range configs {
			c := c13DocCase{Input: in, Config: cfg}
			r.Begin("doc", func() interface{} { return c })
			v := c13DocEval(c)
			r.End()
			r.Case(true, fmt.Sprintf("doccorpus:%s\x00%v", in, cfg))
			if v != "" {
				r.Violation("doc", c, "%s", v)
				break
			}
		}
	}
	// wide and deep members of the type-system grammar, three configurations each
	for _, kind := range gen.WideSchemaKinds {
		for _, n := range kit.PickInts([]int{1, 17, 129, 501, 1025}, gen.WideSizes) {
			if strings.HasPrefix(kind, "d-") && n > 600 {
				continue
			}
			text := gen.WideSchema(kind, n)
			for _, cfg := range []fmtConfig{{DefaultInd: true}, {Indent: "", Comments: true, Compacted: true}, {Indent: " \t", Comments: true, NoDesc: true}} {
				c := c13DocCase{Input: text, Config: cfg}
				r.Begin("doc", func() interface{} { return c })
				v := c13DocEval(c)
				r.End()
				r.Case(true, fmt.Sprintf("wide:%s:%d:%v", kind, n, cfg))
				r.Class("wide:" + kind)
				if v != "" {
					r.Violation("doc", c, "%s", cut(v, 0, 600))
					break
				}
			}
		}
	}
	if r.Violations() > 0 {
		return
	}
	r.Rapid("doc", kit.Pick(300, 10000), func(rt *rapid.T) {
		st := gen.SchemaDocTree().Draw(rt, "doc")
		text := gen.JoinRandom(rt, gen.SchemaLexemes(st, gen.Rand(rt)), true)
		if r.WantSample("doc") {
			r.Sample("doc", text)
		}
		for _, cfg := range configs {
			c := c13DocCase{Input: text, Config: cfg}
			r.Begin("doc", func() interface{} { return c })
			v := c13DocEval(c)
			r.End()
			r.Case(interesting(text), fmt.Sprintf("%s\x00%v", text, cfg))
			if v != "" {
				r.Failf(rt, "doc", c, "%s", v)
			}
		}
	})
	r.Rapid("schema", kit.Pick(250, 10000), func(rt *rapid.T) {
		st := gen.TypedSchema().Draw(rt, "schema")
		text := renderSchemaTree(st, gen.Rand(rt))
		if r.WantSample("schema") {
			r.Sample("schema", text)
		}
		if len(st.Doc.Schemas) > 0 {
			r.Class("schema:explicit-schema-definition")
		}
		for _, cfg := range loadConfigs {
			c := c13SchemaCase{Input: text, Config: cfg}
			r.Begin("schema", func() interface{} { return c })
			v, known := c13SchemaEvalK(c)
			for _, k := range known {
				r.Known(k)
			}
			r.End()
			r.Case(interesting(text), fmt.Sprintf("%s\x00%v", text, cfg))
			if v != "" {
				r.Failf(rt, "schema", c, "%s", v)
			}
		}
	})
}

// c13DocCorpus: documents that parse but would not load (reserved names), and other shapes only
// the document level has.
var c13DocCorpus = []string{
	"type FooBar {\n  __id: ID\n}\n", `type __T { __a(__x: Int): __T } extend type __T { __b: Int }`, `interface I { __typename: String } input In { __f: Int = 1 } enum __E { __V }`,
	`type Query { __schema: Int __type(name: String): Int a: Int }`, `directive @__d(__a: Int) on FIELD`, `extend schema { query: __Q }`,
}

var c13Corpus = []string{
	`type Query { a: Int }`,
	`schema { query: Query mutation: M2 } type Query { a: Int } type M2 { b: Int }`,
	`schema { query: Query } type Query { a: Int } type Mutation { b: Int }`,
	`schema { query: Query } type Query { a: Int } type Subscription { b: Int }`,
	`schema { query: RootQ } type RootQ { a: Int } type Query { b: Int }`,
	`"the schema" schema { query: Query } type Query { a: Int }`,
	`"the schema" schema @d { query: Query } type Query { a: Int } directive @d on SCHEMA`,
	`type Query { a: Int } extend schema @d directive @d on SCHEMA`,
	`"a \"\"\" x" type Query { a: Int }`, `"  lead" type Query { a: Int }`, `"trail\n" type Query { a: Int }`, `"\nlead" type Query { a: Int }`, `"ends with quote\"" type Query { a: Int }`,
	`"back\\slash \\\"\"\" " type Query { a: Int }`, `"tab\there" type Query { "\u0007 bell" a("  arg desc  " x: Int = 1): Int }`, `"cr\rhere" type Query { a: Int }`, `" " type Query { a: Int }`,
	`type Query { a(x: String = "\u0007\"\\"): Int } enum E { "v" A } input I { "f" a: [Int!] = [1] } directive @r("d" x: I = {a: [1]}) repeatable on FIELD | OBJECT`,
	`type Query implements I & J { a: Int b: Int } interface I { a: Int } interface J implements I { a: Int b: Int } union U = Query scalar S @specifiedBy(url: "u")`,
}
