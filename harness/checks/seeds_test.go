package checks

import (
	"os"
	"path/filepath"
	"sort"
	"strings"
	"sync"

	"gopkg.in/yaml.v3"

	"verif/harness/kit"
)

var (
	seedOnce  sync.Once
	seedTexts []string
	seedGQL   []string // contents of *.graphql files in the repository (schemas, formatter inputs)
)

// repoSeeds returns example texts found in the repository's test data: every YAML string
// scalar that looks like GraphQL and every .graphql file. They are seeds for mutation
// (prefixes, deletions, fuzz corpora), never expectations.
func repoSeeds() []string {
	seedOnce.Do(func() {
		seen := map[string]bool{}
		add := func(s string) {
			if len(s) < 1 || len(s) > 6000 || seen[s] {
				return
			}
			seen[s] = true
			seedTexts = append(seedTexts, s)
		}
		var walk func(n *yaml.Node)
		walk = func(n *yaml.Node) {
			if n.Kind == yaml.ScalarNode && n.Tag == "!!str" {
				if strings.ContainsAny(n.Value, "{\"#") || strings.Contains(n.Value, "...") {
					add(n.Value)
				}
			}
			for _, c := range n.Content {
				walk(c)
			}
		}
		root := kit.RepoDir()
		_ = filepath.Walk(root, func(path string, info os.FileInfo, err error) error {
			if err != nil || info.IsDir() {
				return nil
			}
			if strings.HasSuffix(path, ".yml") {
				b, err := os.ReadFile(path)
				if err != nil {
					return nil
				}
				var n yaml.Node
				if yaml.Unmarshal(b, &n) == nil {
					walk(&n)
				}
			}
			if strings.HasSuffix(path, ".graphql") && info.Size() < 20000 {
				if b, err := os.ReadFile(path); err == nil {
					seedGQL = append(seedGQL, string(b))
				}
			}
			return nil
		})
		sort.Strings(seedTexts)
		sort.Strings(seedGQL)
	})
	return seedTexts
}

func repoGraphQLFiles() []string {
	repoSeeds()
	return seedGQL
}
