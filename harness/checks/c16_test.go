package checks

import (
	"encoding/json"
	"fmt"
	"reflect"
	"runtime"
	"strings"
	"testing"
	"time"

	"github.com/vektah/gqlparser/v2/ast"
	"github.com/vektah/gqlparser/v2/parser"
	"pgregory.net/rapid"

	"verif/harness/gen"
	"verif/harness/kit"
	"verif/harness/ref"
)

// C16 — the token limit is exact, monotone and bounds the work (DESIGN.md 6/C16).

type c16Case struct {
	Input  string `json:"input"`
	Schema bool   `json:"schema"`
	// the other fields of ast.Source: neither may influence the limit
	BuiltIn bool   `json:"builtin,omitempty"`
	Name    string `json:"name,omitempty"`
}

// c16Src holds the Source fields other than the text for the parse calls of the case being evaluated.
var c16Src struct {
	BuiltIn bool
	Name    string
}

type c16Result struct {
	ok  bool
	doc interface{}
	err string
}

func c16Parse(text string, schema bool, limit int, limited bool) (res c16Result, pan *kit.Panic) {
	pan = kit.Safely(func() {
		src := &ast.Source{Input: text, BuiltIn: c16Src.BuiltIn, Name: c16Src.Name}
		if schema {
			var d *ast.SchemaDocument
			var err error
			if limited {
				d, err = parser.ParseSchemaWithLimit(src, limit)
			} else {
				d, err = parser.ParseSchema(src)
			}
			if err != nil {
				res.err = err.Error()
			} else {
				res.ok, res.doc = true, d
			}
		} else {
			var d *ast.QueryDocument
			var err error
			if limited {
				d, err = parser.ParseQueryWithTokenLimit(src, limit)
			} else {
				d, err = parser.ParseQuery(src)
			}
			if err != nil {
				res.err = err.Error()
			} else {
				res.ok, res.doc = true, d
			}
		}
	})
	return
}

// tokenEnds returns, for a lexable text, the byte offset just after each token (comments
// counted, EOF excluded); ok=false when the reference cannot lex the text.
func tokenEnds(text string) (ends []int, ok bool) {
	rs := []rune(text)
	lr := ref.Lex(rs, lexOptsOpen("C16"))
	// byte offsets of rune indices
	off := make([]int, len(rs)+1)
	b := 0
	for i, r := range rs {
		off[i] = b
		b += len(string(r))
	}
	off[len(rs)] = b
	for _, t := range lr.Toks {
		if t.Kind != ref.EOF {
			ends = append(ends, off[t.End])
		}
	}
	return ends, lr.OK
}

var c16Garbage = []string{" \xff\xfe\x00", ` "unterminated`, " " + strings.Repeat("[", 1<<16), " \"\\u12"}

// c16Eval checks exactness, monotonicity and tail independence for every limit 0..N+2.
func c16Eval(c c16Case) (viol string, n int, nearCount int) {
	c16Src.BuiltIn, c16Src.Name = c.BuiltIn, c.Name
	defer func() { c16Src.BuiltIn, c16Src.Name = false, "" }()
	ends, lexOK := tokenEnds(c.Input)
	n = len(ends)
	unl, pan := c16Parse(c.Input, c.Schema, 0, false)
	if pan != nil {
		return "unlimited parse panicked: " + pan.Value + " at " + pan.Site, n, 0
	}
	if unl.ok && !lexOK {
		return "", n, 0 // lexer deviation (known finding of C03): token count undefined
	}
	prevOK := false
	for L := 0; L <= n+2; L++ {
		res, pan := c16Parse(c.Input, c.Schema, L, true)
		if pan != nil {
			return fmt.Sprintf("limit %d: panic %s at %s", L, pan.Value, pan.Site), n, nearCount
		}
		nearCount++
		switch {
		case L == 0:
			if res.ok != unl.ok || res.err != unl.err || (res.ok && !reflect.DeepEqual(res.doc, unl.doc)) {
				return fmt.Sprintf("limit 0 is not equivalent to unlimited: unlimited (ok=%v err=%q), limit 0 (ok=%v err=%q)", unl.ok, unl.err, res.ok, res.err), n, nearCount
			}
		case !unl.ok:
			if res.ok {
				return fmt.Sprintf("unlimited parse fails (%s) but limit %d succeeds", unl.err, L), n, nearCount
			}
		case lexOK && n <= L:
			if !res.ok {
				return fmt.Sprintf("input has %d tokens, limit %d, unlimited parse succeeds, limited parse fails: %s", n, L, res.err), n, nearCount
			}
			if !reflect.DeepEqual(res.doc, unl.doc) {
				return fmt.Sprintf("limit %d >= %d tokens: tree (incl. positions) differs from the unlimited parse", L, n), n, nearCount
			}
		case lexOK && n > L:
			if res.ok {
				return fmt.Sprintf("input has %d tokens (comments counted) but parsing with limit %d succeeds", n, L), n, nearCount
			}
		}
		if L > 0 {
			if prevOK && !res.ok {
				return fmt.Sprintf("not monotone: limit %d succeeds, limit %d fails", L-1, L), n, nearCount
			}
			prevOK = res.ok
		}
		// tail independence: with more than L tokens, everything after token L+2 is irrelevant
		if lexOK && L > 0 && n > L+2 {
			head := c.Input[:ends[L+1]]
			for gi, g := range c16Garbage {
				if gi == 2 && L%7 != 1 {
					continue // the large garbage only for some limits
				}
				r2, pan := c16Parse(head+g, c.Schema, L, true)
				if pan != nil {
					return fmt.Sprintf("limit %d with garbage tail: panic %s at %s", L, pan.Value, pan.Site), n, nearCount
				}
				if r2.ok != res.ok || r2.err != res.err {
					return fmt.Sprintf("limit %d of %d tokens: result depends on text after token %d: original (ok=%v %q) vs garbage tail %d (ok=%v %q)", L, n, L+2, res.ok, res.err, gi, r2.ok, r2.err), n, nearCount
				}
			}
		}
	}
	return "", n, nearCount
}

func c16Replay(raw json.RawMessage) string {
	var c c16Case
	if err := json.Unmarshal(raw, &c); err != nil {
		return "bad replay case: " + err.Error()
	}
	v, _, _ := c16Eval(c)
	return v
}

type c16Multi struct {
	A, B  string
	Limit int
	// BuiltIn flags of the two sources: the limit applies to every source alike
	BuiltInA, BuiltInB bool
}

// c16MultiEval: ParseSchemasWithLimit where the per-source and the in-total readings agree.
func c16MultiEval(c c16Multi) string {
	ea, oka := tokenEnds(c.A)
	eb, okb := tokenEnds(c.B)
	if !oka || !okb {
		return ""
	}
	_, errA := parser.ParseSchema(&ast.Source{Input: c.A})
	_, errB := parser.ParseSchema(&ast.Source{Input: c.B})
	var err error
	if p := kit.Safely(func() {
		_, err = parser.ParseSchemasWithLimit(c.Limit, &ast.Source{Name: "a", Input: c.A, BuiltIn: c.BuiltInA}, &ast.Source{Name: "b", Input: c.B, BuiltIn: c.BuiltInB})
	}); p != nil {
		return "ParseSchemasWithLimit panicked: " + p.Value
	}
	na, nb := len(ea), len(eb)
	switch {
	case errA != nil || errB != nil:
		if err == nil {
			return "a source fails to parse alone but ParseSchemasWithLimit succeeds"
		}
	case c.Limit == 0 || na+nb <= c.Limit:
		if err != nil {
			return fmt.Sprintf("sources have %d+%d tokens, limit %d: fails with %v", na, nb, c.Limit, err)
		}
	case na > c.Limit || nb > c.Limit:
		if err == nil {
			return fmt.Sprintf("a source has more tokens (%d, %d) than the limit %d but parsing succeeds", na, nb, c.Limit)
		}
	}
	return ""
}

type c16FamilyCase struct {
	Family string `json:"family"`
	N      int    `json:"n"`
	Limit  int    `json:"limit"`
}

func c16FamilyEval(c c16FamilyCase) string {
	text, schema := gen.Family(c.Family, c.N)
	ends, lexOK := []int(nil), true
	_ = ends
	best := time.Duration(1 << 62)
	var alloc uint64 = 1 << 62
	var last c16Result
	for i := 0; i < 3; i++ {
		var m0, m1 runtime.MemStats
		runtime.ReadMemStats(&m0)
		t0 := time.Now()
		res, pan := c16Parse(text, schema, c.Limit, true)
		el := time.Since(t0)
		runtime.ReadMemStats(&m1)
		if pan != nil {
			return "panic: " + pan.Value + " at " + pan.Site
		}
		last = res
		if el < best {
			best = el
		}
		if a := m1.TotalAlloc - m0.TotalAlloc; a < alloc {
			alloc = a
		}
	}
	_ = lexOK
	// the families have far more tokens than the limit, except floods of ignored characters
	fewTokens := c.Family == "spaces" || c.Family == "commas" || c.Family == "boms" || c.Family == "long-name" || c.Family == "long-string" || c.Family == "long-block" || c.Family == "escapes" || c.Family == "strings-unterminated"
	if !fewTokens && last.ok {
		return fmt.Sprintf("%d bytes with far more than %d tokens parsed successfully under the limit", len(text), c.Limit)
	}
	if fewTokens {
		return ""
	}
	bound := 50*time.Millisecond + time.Duration(c.Limit)*20*time.Microsecond
	if best > bound {
		return fmt.Sprintf("%d bytes under limit %d took %v (bound %v): work is not proportional to the limit", len(text), c.Limit, best, bound)
	}
	allocBound := uint64(4<<20) + uint64(c.Limit)*4096
	if alloc > allocBound {
		return fmt.Sprintf("%d bytes under limit %d allocated %d bytes (bound %d)", len(text), c.Limit, alloc, allocBound)
	}
	return ""
}

func TestC16(t *testing.T) {
	r := kit.New(t, "C16")
	defer r.Finish()
	r.SetRule("documents of both grammars (G3 trees rendered with comments and random ignored text, single-lexeme mutants, lexically broken tails, repository examples; a third of the sources flagged BuiltIn, with and without a name), each parsed at EVERY limit 0..N+2 (N = token count incl. comments per the reference lexer). " +
		"oracle: limit 0 == unlimited; N <= L and unlimited success => identical tree incl. positions; N > L => error; unlimited failure => failure at every L; monotone in L; for N > L+2 the result is unchanged when the text after token L+2 is replaced by garbage (invalid bytes, unterminated string, 64 KiB of '['). " +
		"Valid documents of 6 000 - 70 000 tokens at limits 0, N-1, N, N+1. Families of 1-8 MiB under limits 1..100000: failure within 50 ms + 20 us per limit token and bounded allocation. ParseSchemasWithLimit where per-source and in-total readings agree. non-trivial = (document, limit) pairs evaluated; distinct by document text")
	r.Assume("token count N is taken from the reference lexer; inputs the reference cannot lex but the library can (open known findings of C03) are skipped")
	kit.RegisterReplayer("C16", "doc", c16Replay)
	kit.RegisterReplayer("C16", "seed", c16Replay)
	kit.RegisterReplayer("C16", "family", func(raw json.RawMessage) string {
		var c c16FamilyCase
		_ = json.Unmarshal(raw, &c)
		return c16FamilyEval(c)
	})
	kit.RegisterReplayer("C16", "multi", func(raw json.RawMessage) string {
		var c c16Multi
		_ = json.Unmarshal(raw, &c)
		return c16MultiEval(c)
	})
	if r.ReplayIfRequested() {
		return
	}
	shard, nshards := kit.Shard()

	// families
	for fi, fam := range gen.FamilyNames {
		if fi%nshards != shard {
			continue
		}
		unit, _ := gen.Family(fam, 1000)
		per := float64(len(unit)) / 1000
		for _, size := range []int{1 << 20, kit.Pick(4<<20, 8<<20)} {
			for _, limit := range []int{1, 7, 100, 1000, 100000} {
				c := c16FamilyCase{Family: fam, N: int(float64(size) / per), Limit: limit}
				writeInflight("C16", "family", c)
				r.Begin("family", func() interface{} { return c })
				v := c16FamilyEval(c)
				if v != "" { // re-measure once: wall time under load
					v = c16FamilyEval(c)
				}
				r.End()
				r.Case(true, fmt.Sprintf("family:%s:%d:%d", fam, c.N, limit))
				r.Class("family")
				if v != "" {
					r.Violation("family", c, "%s", v)
				}
			}
		}
	}
	clearInflight()
	if r.Violations() > 0 {
		return
	}

	// large valid documents: limit 0 means unlimited whatever the size, and the limit is exact at
	// scale too (N and N-1 tokens, N beyond every round number a default budget could be)
	if shard == 0 {
		type big struct {
			text   string
			schema bool
		}
		var bigs []big
		for _, n := range []int{6000, 20000, 70000} {
			bigs = append(bigs, big{gen.WideQuery("w-fields", n), false}, big{gen.WideQuery("w-list", n), false}, big{gen.WideSchema("w-fielddefs", n/3), true}, big{gen.WideSchema("w-enum", n), true})
		}
		for _, b := range bigs {
			ends, ok := tokenEnds(b.text)
			if !ok {
				r.HarnessErrorf("a wide family member does not lex for the reference")
				return
			}
			n := len(ends)
			c := c16Case{Input: b.text, Schema: b.schema}
			r.Begin("seed", func() interface{} { return c16Case{Input: b.text[:60] + "...", Schema: b.schema} })
			unl, pan := c16Parse(b.text, b.schema, 0, false)
			v := ""
			if pan != nil || !unl.ok {
				v = "a large valid document is rejected without a limit: " + unl.err
			}
			for _, L := range []int{0, n, n - 1, n + 1} {
				if v != "" {
					break
				}
				res, pan := c16Parse(b.text, b.schema, L, true)
				switch {
				case pan != nil:
					v = fmt.Sprintf("limit %d: panic %s", L, pan.Value)
				case (L == 0 || L >= n) && !res.ok:
					v = fmt.Sprintf("document of %d tokens under limit %d (0 = unlimited) fails: %s", n, L, res.err)
				case L != 0 && L < n && res.ok:
					v = fmt.Sprintf("document of %d tokens parses under limit %d", n, L)
				}
			}
			r.End()
			r.Case(true, fmt.Sprintf("large:%v:%d", b.schema, n))
			r.Class("large-valid-document")
			r.ClassN("pairs(document,limit)", 4)
			if v != "" {
				r.Violation("seed", c, "%s", v)
				return
			}
		}
	}

	// repository examples
	if shard == 0 {
		for _, s := range repoSeeds() {
			if len(s) > 600 {
				continue
			}
			for _, schema := range []bool{false, true} {
				c := c16Case{Input: s, Schema: schema, BuiltIn: len(s)%3 == 0}
				r.Begin("seed", func() interface{} { return c })
				v, n, pairs := c16Eval(c)
				r.End()
				r.Case(n >= 2, fmt.Sprintf("%v:%s", schema, s))
				r.ClassN("pairs(document,limit)", int64(pairs))
				if v != "" {
					r.Violation("seed", c, "%s", v)
					if r.Violations() > 3 {
						return
					}
				}
			}
		}
	}
	if r.Violations() > 0 {
		return
	}

	r.Rapid("doc", kit.Pick(500, 20000), func(rt *rapid.T) {
		schema := rapid.Bool().Draw(rt, "schema")
		var lex []string
		if schema {
			lex = gen.SchemaLexemes(gen.SchemaDocTree().Draw(rt, "sdoc"), gen.Rand(rt))
		} else {
			lex = gen.QueryLexemes(gen.QueryDoc().Draw(rt, "qdoc"), gen.Rand(rt))
		}
		if len(lex) > 70 {
			lex = lex[:70] // keep (document x limit x garbage) affordable; truncation yields syntax errors at a known token
		}
		kind := rapid.IntRange(0, 3).Draw(rt, "variant")
		class := "valid"
		switch kind {
		case 1:
			alpha := c05MutAlphabet
			if schema {
				alpha = c06Alphabet
			}
			lex, _ = mutateLexemes(rt, lex, alpha)
			class = "mutant"
		}
		text := gen.JoinRandom(rt, lex, true)
		if kind == 2 {
			text += rapid.SampledFrom([]string{` "abc`, " \x01", " 1.", ` """x`, " \\"}).Draw(rt, "broken")
			class = "broken-tail"
		}
		c := c16Case{Input: text, Schema: schema, BuiltIn: rapid.IntRange(0, 2).Draw(rt, "builtin") == 0, Name: rapid.SampledFrom([]string{"", "prelude.graphql", "a.graphql"}).Draw(rt, "srcname")}
		if c.BuiltIn {
			r.Class("doc:source-flagged-built-in")
		}
		r.Begin("doc", func() interface{} { return c })
		defer r.End()
		v, n, pairs := c16Eval(c)
		r.Case(n >= 2, text)
		r.Class("doc:" + class)
		r.ClassN("pairs(document,limit)", int64(pairs))
		if strings.Contains(text, "#") {
			r.Class("doc:has-comment")
		}
		if r.WantSample("doc") {
			r.Sample("doc", c)
		}
		if v != "" {
			r.Failf(rt, "doc", c, "%s", v)
		}
	})

	r.Rapid("multi", kit.Pick(1500, 30000), func(rt *rapid.T) {
		a := gen.JoinRandom(rt, gen.SchemaLexemes(gen.SchemaDocTree().Draw(rt, "a"), gen.Rand(rt)), true)
		b := gen.JoinRandom(rt, gen.SchemaLexemes(gen.SchemaDocTree().Draw(rt, "b"), gen.Rand(rt)), true)
		ea, _ := tokenEnds(a)
		eb, _ := tokenEnds(b)
		lim := rapid.SampledFrom([]int{0, len(ea) - 1, len(ea), len(eb) - 1, len(eb), len(ea) + len(eb), len(ea) + len(eb) - 1, len(ea) + len(eb) + 1, 1}).Draw(rt, "limit")
		if lim < 0 {
			lim = 0
		}
		c := c16Multi{A: a, B: b, Limit: lim, BuiltInA: rapid.IntRange(0, 2).Draw(rt, "builtinA") == 0, BuiltInB: rapid.IntRange(0, 2).Draw(rt, "builtinB") == 0}
		r.Begin("multi", func() interface{} { return c })
		defer r.End()
		v := c16MultiEval(c)
		r.Case(true, fmt.Sprintf("%s\x00%s\x00%d\x00%v%v", a, b, lim, c.BuiltInA, c.BuiltInB))
		r.Class("multi")
		if v != "" {
			r.Failf(rt, "multi", c, "%s", v)
		}
	})
}
