module verif/harness

go 1.23

toolchain go1.23.5

require (
	github.com/vektah/gqlparser/v2 v2.0.0
	gopkg.in/yaml.v3 v3.0.1
	pgregory.net/rapid v1.3.0
)

require github.com/agnivade/levenshtein v1.2.1 // indirect

replace github.com/vektah/gqlparser/v2 => /repo
