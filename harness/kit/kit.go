// Package kit is the plumbing shared by every check: evidence counters, replay files,
// known-findings, panic capture, per-case watchdog. It does not import the code under test.
package kit

import (
	"bufio"
	"encoding/binary"
	"encoding/json"
	"flag"
	"fmt"
	"hash/fnv"
	"os"
	"path/filepath"
	"runtime"
	"runtime/debug"
	"sort"
	"strconv"
	"strings"
	"sync"
	"sync/atomic"
	"testing"
	"time"

	"pgregory.net/rapid"
)

// ---------------------------------------------------------------- environment

func Tier() string {
	if t := os.Getenv("VERIF_TIER"); t == "thorough" {
		return "thorough"
	}
	return "quick"
}

func Thorough() bool { return Tier() == "thorough" }

func Seed() int64 {
	s, _ := strconv.ParseInt(os.Getenv("VERIF_SEED"), 10, 64)
	return s
}

func Shard() (int, int) {
	s, _ := strconv.Atoi(os.Getenv("VERIF_SHARD"))
	n, _ := strconv.Atoi(os.Getenv("VERIF_NSHARDS"))
	if n <= 0 {
		n = 1
	}
	return s, n
}

// PickInts is Pick for lists.
func PickInts(quick, thorough []int) []int {
	if Thorough() {
		return thorough
	}
	return quick
}

// Pick returns q in the quick tier and th in the thorough tier.
func Pick(q, th int) int {
	if Thorough() {
		return th
	}
	return q
}

func VerifDir() string {
	if d := os.Getenv("VERIF_DIR"); d != "" {
		return d
	}
	return "/verif"
}

func RepoDir() string {
	if d := os.Getenv("VERIF_REPO"); d != "" {
		return d
	}
	return "/repo"
}

// ---------------------------------------------------------------- known findings

type Finding struct {
	Property string
	ID       string
	What     string
	Open     bool
}

// Has reports whether the finding is listed for property prop (the property field may be a
// comma-separated list when one defect shows through several properties).
func (f Finding) Has(prop string) bool {
	for _, p := range strings.Split(f.Property, ",") {
		if p == prop {
			return true
		}
	}
	return false
}

var (
	kfOnce sync.Once
	kfAll  []Finding
)

func loadKF() {
	path := os.Getenv("VERIF_KF")
	if path == "" {
		path = filepath.Join(VerifDir(), "known-findings.txt")
	}
	f, err := os.Open(path)
	if err != nil {
		return
	}
	defer f.Close()
	sc := bufio.NewScanner(f)
	sc.Buffer(make([]byte, 1<<20), 1<<20)
	for sc.Scan() {
		line := strings.TrimSpace(sc.Text())
		if line == "" || strings.HasPrefix(line, "#") {
			continue
		}
		var fd Finding
		switch {
		case strings.HasPrefix(line, "open:"):
			fd.Open = true
			line = strings.TrimSpace(line[len("open:"):])
		case strings.HasPrefix(line, "fixed:"):
			line = strings.TrimSpace(line[len("fixed:"):])
		default:
			continue
		}
		// property=<id> id=<slug> what=<rest of line>
		if i := strings.Index(line, "what="); i >= 0 {
			fd.What = strings.TrimSpace(line[i+len("what="):])
			line = line[:i]
		}
		for _, f := range strings.Fields(line) {
			if strings.HasPrefix(f, "property=") {
				fd.Property = f[len("property="):]
			}
			if strings.HasPrefix(f, "id=") {
				fd.ID = f[len("id="):]
			}
		}
		kfAll = append(kfAll, fd)
	}
}

// KFOpen reports whether finding id is listed as open for property prop.
func KFOpen(prop, id string) bool {
	kfOnce.Do(loadKF)
	for _, f := range kfAll {
		if f.Open && f.Has(prop) && f.ID == id {
			return true
		}
	}
	return false
}

func KFList(prop string) []Finding {
	kfOnce.Do(loadKF)
	var out []Finding
	for _, f := range kfAll {
		if f.Has(prop) {
			out = append(out, f)
		}
	}
	return out
}

// ---------------------------------------------------------------- recorder

type Rec struct {
	Prop string
	t    *testing.T

	mu        sync.Mutex
	start     time.Time
	evals     int64
	nontriv   map[uint64]struct{}
	distinctX int64 // cases known to be distinct by construction (exhaustive enumeration), not hashed
	classes   map[string]int64
	samples   []interface{}
	sampleN   map[string]int
	kfHits    map[string]int64
	notes     []string
	exh       []string
	rule      string
	assume    []string
	viol      []string
	inconcl   []string
	extra     map[string]interface{}
	lastFile  map[string]string
	replaying bool

	// watchdog
	caseStart atomic.Int64 // 0 = no case open, otherwise the sequence number of the open case
	caseSeq   atomic.Int64
	caseDesc  atomic.Value // func() interface{}
	caseCheck atomic.Value // string
	budget    time.Duration
}

// Replayer turns a saved case back into an oracle evaluation. It returns a non-empty
// string when the property is violated on that case.
type Replayer func(raw json.RawMessage) string

var (
	replayMu  sync.Mutex
	replayers = map[string]Replayer{}
)

func RegisterReplayer(prop, check string, r Replayer) {
	replayMu.Lock()
	defer replayMu.Unlock()
	replayers[prop+"/"+check] = r
}

type ReplayFile struct {
	Property string          `json:"property"`
	Check    string          `json:"check"`
	Message  string          `json:"message"`
	Case     json.RawMessage `json:"case"`
}

func New(t *testing.T, prop string) *Rec {
	r := &Rec{Prop: prop, t: t, start: time.Now(),
		nontriv: map[uint64]struct{}{}, classes: map[string]int64{}, sampleN: map[string]int{},
		kfHits: map[string]int64{}, extra: map[string]interface{}{}, lastFile: map[string]string{},
		budget: 30 * time.Second}
	if b := os.Getenv("VERIF_CASE_BUDGET_S"); b != "" {
		if n, err := strconv.Atoi(b); err == nil && n > 0 {
			r.budget = time.Duration(n) * time.Second
		}
	}
	go r.watch()
	return r
}

func (r *Rec) SetBudget(d time.Duration) { r.budget = d }

func (r *Rec) SetRule(s string)       { r.rule = s }
func (r *Rec) Assume(s string)        { r.assume = append(r.assume, s) }
func (r *Rec) Note(s string)          { r.mu.Lock(); r.notes = append(r.notes, s); r.mu.Unlock() }
func (r *Rec) Exhaustive(desc string) { r.mu.Lock(); r.exh = append(r.exh, desc); r.mu.Unlock() }
func (r *Rec) Inconclusive(s string)  { r.mu.Lock(); r.inconcl = append(r.inconcl, s); r.mu.Unlock() }
func (r *Rec) Extra(k string, v interface{}) {
	r.mu.Lock()
	r.extra[k] = v
	r.mu.Unlock()
}

func Hash(s string) uint64 {
	h := fnv.New64a()
	h.Write([]byte(s))
	return h.Sum64()
}

// Case counts one evaluated case; key identifies it for distinctness when nontrivial.
func (r *Rec) Case(nontrivial bool, key string) {
	r.mu.Lock()
	r.evals++
	if nontrivial {
		r.nontriv[Hash(key)] = struct{}{}
	}
	r.mu.Unlock()
}

// CaseEnum counts a case of an exhaustive enumeration: distinct by construction, so it is
// counted without being hashed.
func (r *Rec) CaseEnum(nontrivial bool) {
	r.mu.Lock()
	r.evals++
	if nontrivial {
		r.distinctX++
	}
	r.mu.Unlock()
}

// AddEnum adds counts gathered by a worker of an exhaustive enumeration.
func (r *Rec) AddEnum(evals, nontrivial int64) {
	r.mu.Lock()
	r.evals += evals
	r.distinctX += nontrivial
	r.mu.Unlock()
}

func (r *Rec) CaseH(nontrivial bool, h uint64) {
	r.mu.Lock()
	r.evals++
	if nontrivial {
		r.nontriv[h] = struct{}{}
	}
	r.mu.Unlock()
}

func (r *Rec) Class(names ...string) {
	r.mu.Lock()
	for _, n := range names {
		r.classes[n]++
	}
	r.mu.Unlock()
}

func (r *Rec) ClassN(name string, n int64) {
	r.mu.Lock()
	r.classes[name] += n
	r.mu.Unlock()
}

// Sample keeps up to three samples per label.
func (r *Rec) Sample(label string, v interface{}) {
	r.mu.Lock()
	if r.sampleN[label] < 3 && len(r.samples) < 40 {
		r.sampleN[label]++
		r.samples = append(r.samples, map[string]interface{}{"check": label, "case": v})
	}
	r.mu.Unlock()
}

func (r *Rec) WantSample(label string) bool {
	r.mu.Lock()
	defer r.mu.Unlock()
	return r.sampleN[label] < 3 && len(r.samples) < 40
}

// Known records that a case was explained by open known finding id.
func (r *Rec) Known(id string) {
	r.mu.Lock()
	r.kfHits[id]++
	r.mu.Unlock()
}

func (r *Rec) Open(id string) bool { return KFOpen(r.Prop, id) }

// ---------------------------------------------------------------- failures

type fataler interface {
	Fatalf(format string, args ...interface{})
}

func (r *Rec) replayDir() string {
	d := os.Getenv("VERIF_REPLAY_DIR")
	if d == "" {
		d = filepath.Join(VerifDir(), "replays", r.Prop)
	}
	_ = os.MkdirAll(d, 0o755)
	return d
}

func (r *Rec) writeReplay(check string, c interface{}, msg string) string {
	return r.writeReplayTag(check, "", c, msg)
}

func (r *Rec) writeReplayTag(check, tag string, c interface{}, msg string) string {
	raw, err := json.Marshal(c)
	if err != nil {
		raw, _ = json.Marshal(fmt.Sprintf("%#v", c))
	}
	if tag == "#" {
		tag = fmt.Sprintf("-%08x", Hash(string(raw))&0xffffffff)
	}
	rf := ReplayFile{Property: r.Prop, Check: check, Message: msg, Case: raw}
	b, _ := json.MarshalIndent(rf, "", " ")
	shard, _ := Shard()
	path := filepath.Join(r.replayDir(), fmt.Sprintf("%s-%s-s%d-%d%s.json", r.Prop, check, Seed(), shard, tag))
	_ = os.WriteFile(path, b, 0o644)
	r.mu.Lock()
	r.lastFile[check] = path
	r.mu.Unlock()
	return path
}

// Failf records a violation on case c for the named check. Inside a rapid property pass the
// *rapid.T so that shrinking continues; the last file written is the minimal case.
func (r *Rec) Failf(f fataler, check string, c interface{}, format string, args ...interface{}) {
	msg := fmt.Sprintf(format, args...)
	if r.replaying {
		f.Fatalf("%s", msg)
		return
	}
	path := r.writeReplay(check, c, msg)
	f.Fatalf("property %s violated (%s): %s\nreplay file: %s", r.Prop, check, msg, path)
}

// Violation records a violation without a testing handle (exhaustive loops).
func (r *Rec) Violation(check string, c interface{}, format string, args ...interface{}) {
	msg := fmt.Sprintf(format, args...)
	path := r.writeReplayTag(check, "#", c, msg)
	r.mu.Lock()
	r.viol = append(r.viol, path)
	r.mu.Unlock()
	r.t.Errorf("property %s violated (%s): %s\nreplay file: %s", r.Prop, check, msg, path)
}

func (r *Rec) Violations() int {
	r.mu.Lock()
	defer r.mu.Unlock()
	return len(r.viol)
}

// HarnessErrorf reports a defect of the harness itself (exit 2 in the driver), never a violation.
func (r *Rec) HarnessErrorf(format string, args ...interface{}) {
	msg := fmt.Sprintf(format, args...)
	fmt.Printf("HARNESS-ERROR property=%s %s\n", r.Prop, strings.ReplaceAll(msg, "\n", " | "))
	r.t.Errorf("harness error: %s", msg)
}

// ---------------------------------------------------------------- rapid wrapper

// Rapid runs prop with n checks under check name `check`. Violations must be reported with
// r.Failf(rt, check, ...). A rapid failure that did not come through Failf (a panic in the
// harness, a generator problem) is reported as harness error.
func (r *Rec) Rapid(check string, n int, prop func(rt *rapid.T)) {
	if r.replaying {
		return
	}
	_ = flag.Set("rapid.checks", strconv.Itoa(n))
	_ = flag.Set("rapid.nofailfile", "true")
	ok := r.t.Run(check, func(t *testing.T) {
		rapid.Check(t, prop)
	})
	if !ok {
		r.mu.Lock()
		p := r.lastFile[check]
		if p != "" {
			r.viol = append(r.viol, p)
		}
		r.mu.Unlock()
		if p == "" {
			fmt.Printf("HARNESS-ERROR property=%s check=%s rapid failed without a recorded violation\n", r.Prop, check)
		}
	}
}

// ---------------------------------------------------------------- watchdog and panic capture

// Begin marks the start of one case; desc is only called if the case hangs.
func (r *Rec) Begin(check string, desc func() interface{}) {
	r.caseCheck.Store(check)
	r.caseDesc.Store(desc)
	r.caseStart.Store(r.caseSeq.Add(1))
}

func (r *Rec) End() { r.caseStart.Store(0) }

func (r *Rec) watch() {
	// Elapsed time is counted in wake-ups of this loop during which the same case stayed open,
	// not read from a clock: a stepped wall clock or a paused virtual machine must not look like
	// a case that hangs (a starved process is only judged more leniently).
	const tick = 500 * time.Millisecond
	var last int64
	var ticks int
	for {
		time.Sleep(tick)
		st := r.caseStart.Load()
		if st == 0 || st != last {
			last, ticks = st, 0
			continue
		}
		ticks++
		if time.Duration(ticks)*tick > r.budget {
			// re-check it is the same case
			if r.caseStart.Load() != st {
				continue
			}
			check, _ := r.caseCheck.Load().(string)
			var c interface{}
			if d, ok := r.caseDesc.Load().(func() interface{}); ok && d != nil {
				c = d()
			}
			if where := hangSite(); where != "" {
				// the goroutine that is stuck is executing harness code (a reference model or a
				// generator), not the code under test: a defect of the harness, never a violation
				r.writeReplay(check+"-harness-hang", c, "harness code did not finish: "+where)
				fmt.Printf("HARNESS-ERROR property=%s check=%s a case did not finish within %v inside harness code: %s\n", r.Prop, check, r.budget, where)
				r.mu.Lock()
				r.t.Fail()
				r.mu.Unlock()
				r.Flush()
				os.Exit(2)
			}
			path := r.writeReplay(check+"-hang", c, fmt.Sprintf("case did not finish within %v", r.budget))
			fmt.Printf("VIOLATION property=%s replay=%s\n", r.Prop, path)
			r.mu.Lock()
			r.viol = append(r.viol, path)
			r.mu.Unlock()
			r.Flush()
			os.Exit(1)
		}
	}
}

// hangSite inspects all goroutine stacks. It returns "" when a running goroutine of the check
// is inside the code under test (innermost frames in github.com/vektah/gqlparser), otherwise
// a short description of where the harness itself is stuck.
func hangSite() string {
	buf := make([]byte, 4<<20)
	n := runtime.Stack(buf, true)
	where := ""
	for _, g := range strings.Split(string(buf[:n]), "\n\n") {
		if !strings.Contains(g, "verif/harness/checks.") || strings.Contains(g, "kit.(*Rec).watch") {
			continue
		}
		head := strings.SplitN(g, "\n", 2)
		if len(head) < 2 || !(strings.Contains(head[0], "[running]") || strings.Contains(head[0], "[runnable]")) {
			continue
		}
		lines := strings.Split(head[1], "\n")
		inner := lines
		if len(inner) > 16 {
			inner = inner[:16]
		}
		for _, l := range inner {
			if strings.HasPrefix(l, "github.com/vektah/gqlparser/v2") {
				return ""
			}
		}
		for _, l := range inner {
			if strings.HasPrefix(l, "verif/harness/") {
				where = l
				break
			}
		}
	}
	if where == "" {
		return "" // cannot tell: attribute to the case (conservative for detection)
	}
	return where
}

type Panic struct {
	Value string
	Site  string // first frames inside the code under test
	Stack string
}

// Safely runs f and returns a description of the panic if it panicked.
func Safely(f func()) (p *Panic) {
	defer func() {
		if v := recover(); v != nil {
			st := string(debug.Stack())
			p = &Panic{Value: fmt.Sprint(v), Stack: st, Site: site(st)}
		}
	}()
	f()
	return nil
}

func site(stack string) string {
	lines := strings.Split(stack, "\n")
	var out []string
	for i := 0; i+1 < len(lines); i++ {
		l := lines[i]
		if strings.HasPrefix(l, "github.com/vektah/gqlparser/v2") {
			fn := l
			if j := strings.LastIndex(fn, "("); j > 0 {
				fn = fn[:j]
			}
			loc := strings.TrimSpace(lines[i+1])
			if j := strings.Index(loc, " +0x"); j > 0 {
				loc = loc[:j]
			}
			loc = filepath.Base(filepath.Dir(loc)) + "/" + filepath.Base(loc)
			out = append(out, strings.TrimPrefix(fn, "github.com/vektah/gqlparser/v2/")+" "+loc)
			if len(out) == 3 {
				break
			}
		}
	}
	return strings.Join(out, " <- ")
}

// ---------------------------------------------------------------- replay entry

// Replaying returns the replay file to evaluate, if this process was started for replay.
func (r *Rec) ReplayIfRequested() bool {
	path := os.Getenv("VERIF_REPLAY")
	if path == "" {
		return false
	}
	r.replaying = true
	b, err := os.ReadFile(path)
	if err != nil {
		r.HarnessErrorf("cannot read replay file: %v", err)
		return true
	}
	var rf ReplayFile
	if err := json.Unmarshal(b, &rf); err != nil {
		r.HarnessErrorf("cannot decode replay file: %v", err)
		return true
	}
	if rf.Property != r.Prop {
		return true
	}
	check := strings.TrimSuffix(rf.Check, "-hang")
	replayMu.Lock()
	rp := replayers[r.Prop+"/"+check]
	replayMu.Unlock()
	if rp == nil {
		r.HarnessErrorf("no replayer registered for %s/%s", r.Prop, check)
		return true
	}
	done := make(chan string, 1)
	go func() {
		var msg string
		if p := Safely(func() { msg = rp(rf.Case) }); p != nil {
			msg = "panic: " + p.Value + " at " + p.Site
		}
		done <- msg
	}()
	select {
	case msg := <-done:
		if msg != "" {
			fmt.Printf("VIOLATION property=%s replay=%s\n", r.Prop, path)
			fmt.Printf("  %s\n", msg)
			r.t.Errorf("replay reproduces the violation: %s", msg)
		} else {
			fmt.Printf("REPLAY-OK property=%s replay=%s (property holds on this case)\n", r.Prop, path)
		}
	case <-time.After(r.budget):
		fmt.Printf("VIOLATION property=%s replay=%s\n  case did not finish within %v\n", r.Prop, path, r.budget)
		r.t.Errorf("replay hangs")
	}
	return true
}

// ---------------------------------------------------------------- flush

type sideFile struct {
	Property      string                 `json:"property"`
	Tier          string                 `json:"tier"`
	Seed          int64                  `json:"seed"`
	Shard         int                    `json:"shard"`
	Evaluations   int64                  `json:"evaluations"`
	Distinct      int                    `json:"distinct_nontrivial"`
	DistinctEnum  int64                  `json:"distinct_enum"`
	HashFile      string                 `json:"hash_file"`
	Classes       map[string]int64       `json:"classes"`
	Samples       []interface{}          `json:"samples"`
	KnownHits     map[string]int64       `json:"known_finding_hits"`
	Notes         []string               `json:"notes"`
	Exhaustive    []string               `json:"exhaustive"`
	Rule          string                 `json:"rule"`
	Assumptions   []string               `json:"assumptions"`
	Violations    []string               `json:"violations"`
	Inconclusive  []string               `json:"inconclusive"`
	Extra         map[string]interface{} `json:"extra"`
	WallS         float64                `json:"wall_s"`
	GoVersion     string                 `json:"go_version"`
	Failed        bool                   `json:"failed"`
	KnownFindings []Finding              `json:"known_findings"`
}

// Flush writes the side file the driver merges into evidence/<id>.json and prints the
// VIOLATION / KNOWN-FINDING lines of this process.
func (r *Rec) Flush() {
	r.mu.Lock()
	defer r.mu.Unlock()
	out := os.Getenv("VERIF_OUT")
	shard, _ := Shard()
	sf := sideFile{Property: r.Prop, Tier: Tier(), Seed: Seed(), Shard: shard, Evaluations: r.evals,
		Distinct: len(r.nontriv), DistinctEnum: r.distinctX, Classes: r.classes, Samples: r.samples, KnownHits: r.kfHits,
		Notes: r.notes, Exhaustive: r.exh, Rule: r.rule, Assumptions: r.assume, Violations: r.viol,
		Inconclusive: r.inconcl, Extra: r.extra, WallS: time.Since(r.start).Seconds(),
		GoVersion: runtime.Version(), Failed: r.t.Failed(), KnownFindings: KFList(r.Prop)}
	if out != "" {
		hf := out + ".hashes"
		if f, err := os.Create(hf); err == nil {
			w := bufio.NewWriter(f)
			keys := make([]uint64, 0, len(r.nontriv))
			for k := range r.nontriv {
				keys = append(keys, k)
			}
			sort.Slice(keys, func(i, j int) bool { return keys[i] < keys[j] })
			var b [8]byte
			for _, k := range keys {
				binary.LittleEndian.PutUint64(b[:], k)
				w.Write(b[:])
			}
			w.Flush()
			f.Close()
			sf.HashFile = hf
		}
		b, _ := json.Marshal(sf)
		_ = os.WriteFile(out, b, 0o644)
	}
}

// Finish is deferred by every check.
func (r *Rec) Finish() {
	r.End()
	if r.replaying {
		return
	}
	seen := map[string]bool{}
	for _, v := range r.viol {
		if !seen[v] {
			seen[v] = true
			fmt.Printf("VIOLATION property=%s replay=%s\n", r.Prop, v)
		}
	}
	r.Flush()
}
