package gen

import (
	"fmt"
	"sort"

	"pgregory.net/rapid"

	"verif/harness/ref"
)

// G6: valid-by-construction type systems. The result is a SchemaTree (definitions and
// extensions as separate top-level pieces) whose merged form satisfies every rule of
// ref.Schema.Validate.

var fieldNames = []string{"a", "b", "c", "id", "name", "f1", "f2", "items", "fa", "fb", "nam", "nme"}
var argNames = []string{"x", "y", "z", "first", "arg", "ar", "agr"}
var enumValueNames = []string{"RED", "GREEN", "BLUE", "A", "B", "RAD", "GREN"}

type schemaGen struct {
	inputBias  bool // argument types prefer input objects (and a oneOf input always exists)
	t          *rapid.T
	doc        *ref.SchemaDoc
	order      []TopItem
	objects    []string
	interfaces []string
	unions     []string
	enums      []string
	inputs     []string
	scalars    []string // custom
	dirs       []*ref.DirectiveDef
	defs       map[string]*ref.TypeDef
	oneOf      string
}

func (g *schemaGen) pick(label string, l []string) string {
	return rapid.SampledFrom(l).Draw(g.t, label)
}

func (g *schemaGen) chance(label string, n int) bool {
	return rapid.IntRange(0, n-1).Draw(g.t, label) == 0
}

func (g *schemaGen) wrap(label, name string, allowNonNullOuter bool) *ref.Type {
	t := &ref.Type{Name: name}
	switch rapid.IntRange(0, 10).Draw(g.t, label+"wrap") {
	case 8:
		// [[T]!]
		t = &ref.Type{Elem: &ref.Type{Elem: t, NonNull: true}}
	case 9:
		// [[T!]!]!
		t.NonNull = true
		t = &ref.Type{Elem: &ref.Type{Elem: t, NonNull: true}, NonNull: allowNonNullOuter}
	case 10:
		// [[[T]]!]
		t = &ref.Type{Elem: &ref.Type{Elem: &ref.Type{Elem: t}, NonNull: true}}
	case 0:
		t.NonNull = allowNonNullOuter
	case 1:
		t = &ref.Type{Elem: t}
	case 2:
		t.NonNull = true
		t = &ref.Type{Elem: t}
	case 3:
		t.NonNull = true
		t = &ref.Type{Elem: t, NonNull: allowNonNullOuter}
	case 4:
		t = &ref.Type{Elem: &ref.Type{Elem: t}}
	}
	return t
}

func (g *schemaGen) inputTypeNames() []string {
	out := append([]string{}, ref.BuiltinScalars...)
	out = append(out, g.scalars...)
	out = append(out, g.enums...)
	out = append(out, g.inputs...)
	if g.inputBias {
		out = append(append(append(out, g.inputs...), g.inputs...), g.inputs...)
		if g.oneOf != "" {
			out = append(out, g.oneOf, g.oneOf)
		}
	}
	return out
}

func (g *schemaGen) outputTypeNames() []string {
	out := append([]string{}, ref.BuiltinScalars...)
	out = append(out, g.scalars...)
	out = append(out, g.enums...)
	out = append(out, g.objects...)
	out = append(out, g.interfaces...)
	out = append(out, g.unions...)
	return out
}

// ConstOfType generates a constant literal that is valid for type ty in the (partially built) schema.
func (g *schemaGen) constOfType(ty *ref.Type, depth int) *ref.Value {
	return ConstOfType(g.t, func(n string) *ref.TypeDef { return g.defs[n] }, ty, depth, false)
}

// a custom scalar accepts list literals too, so a list literal at a list-of-custom-scalar
// position would be ambiguous: never coerce there
func isCustomScalar(lookup func(string) *ref.TypeDef, name string) bool {
	d := lookup(name)
	return d != nil && d.Kind == "SCALAR" && !isBuiltinScalar(name)
}

// ConstOfType draws a literal of type ty. allowNull permits null at nullable positions.
func ConstOfType(t *rapid.T, lookup func(string) *ref.TypeDef, ty *ref.Type, depth int, allowNull bool) *ref.Value {
	if !ty.NonNull && allowNull && rapid.IntRange(0, 5).Draw(t, "null") == 0 {
		return &ref.Value{Kind: "Null", Raw: "null"}
	}
	if ty.Elem != nil {
		if rapid.IntRange(0, 4).Draw(t, "coerce") == 0 && ty.Elem.Elem == nil && !isCustomScalar(lookup, ty.Elem.Name) {
			// a single value is coerced to a list of one
			inner := *ty.Elem
			inner.NonNull = true
			return ConstOfType(t, lookup, &inner, depth, false)
		}
		v := &ref.Value{Kind: "List"}
		n := rapid.IntRange(0, 2).Draw(t, "nlist")
		for i := 0; i < n; i++ {
			v.Items = append(v.Items, ConstOfType(t, lookup, ty.Elem, depth-1, allowNull))
		}
		return v
	}
	switch ty.Name {
	case "Int":
		return &ref.Value{Kind: "Int", Raw: rapid.SampledFrom([]string{"0", "1", "-7", "42", "2147483647", "-2147483648"}).Draw(t, "int")}
	case "Float":
		if rapid.Bool().Draw(t, "floatint") {
			return &ref.Value{Kind: "Int", Raw: rapid.SampledFrom([]string{"0", "3", "-5"}).Draw(t, "fint")}
		}
		return &ref.Value{Kind: "Float", Raw: rapid.SampledFrom([]string{"0.5", "-1.25", "1e3", "2.5E-2"}).Draw(t, "float")}
	case "String":
		return &ref.Value{Kind: "String", Raw: rapid.SampledFrom([]string{"", "s", "hello world", "a\"b", "é"}).Draw(t, "string")}
	case "Boolean":
		return &ref.Value{Kind: "Boolean", Raw: rapid.SampledFrom([]string{"true", "false"}).Draw(t, "bool")}
	case "ID":
		if rapid.Bool().Draw(t, "idint") {
			return &ref.Value{Kind: "Int", Raw: rapid.SampledFrom([]string{"1", "99"}).Draw(t, "idi")}
		}
		return &ref.Value{Kind: "String", Raw: rapid.SampledFrom([]string{"id1", "x"}).Draw(t, "ids")}
	}
	def := lookup(ty.Name)
	if def == nil {
		return &ref.Value{Kind: "Null", Raw: "null"}
	}
	switch def.Kind {
	case "SCALAR":
		// custom scalars accept any literal
		return Value(1, true).Filter(func(v *ref.Value) bool { return (v.Kind != "Null" || !ty.NonNull) && uniqueKeys(v) }).Draw(t, "custom")
	case "ENUM":
		return &ref.Value{Kind: "Enum", Raw: rapid.SampledFrom(def.EnumValues).Draw(t, "enumv").Name}
	case "INPUT_OBJECT":
		v := &ref.Value{Kind: "Object"}
		isOneOf := false
		for _, d := range def.Directives {
			if d.Name == "oneOf" {
				isOneOf = true
			}
		}
		if isOneOf {
			f := rapid.SampledFrom(def.Fields).Draw(t, "oneoffield")
			if depth <= 0 {
				f = def.Fields[0] // by construction a scalar field: terminates recursive oneOf inputs
			}
			nn := *f.Type
			nn.NonNull = true
			v.Fields = append(v.Fields, &ref.ObjField{Name: f.Name, Value: ConstOfType(t, lookup, &nn, depth-1, false)})
			return v
		}
		for _, f := range def.Fields {
			required := f.Type.NonNull && f.Default == nil
			if required || (depth > 0 && rapid.Bool().Draw(t, "optfield")) {
				if depth <= 0 && !f.Type.NonNull {
					v.Fields = append(v.Fields, &ref.ObjField{Name: f.Name, Value: &ref.Value{Kind: "Null", Raw: "null"}})
					continue
				}
				v.Fields = append(v.Fields, &ref.ObjField{Name: f.Name, Value: ConstOfType(t, lookup, f.Type, depth-1, allowNull)})
			}
		}
		return v
	}
	return &ref.Value{Kind: "Null", Raw: "null"}
}

// applied directives for a type-system location
func (g *schemaGen) applied(loc string) []*ref.Directive {
	var out []*ref.Directive
	if !g.chance("applydir", 4) {
		return nil
	}
	used := map[string]bool{}
	for _, d := range g.dirs {
		has := false
		for _, l := range d.Locations {
			if l == loc {
				has = true
			}
		}
		if !has || (used[d.Name] && !d.Repeatable) || !g.chance("usedir", 2) {
			continue
		}
		n := 1
		if d.Repeatable && g.chance("repeat", 2) {
			n = 2
		}
		for i := 0; i < n; i++ {
			ad := &ref.Directive{Name: d.Name}
			for _, a := range d.Args {
				if (a.Type.NonNull && a.Default == nil) || g.chance("optarg", 2) {
					ad.Args = append(ad.Args, &ref.Arg{Name: a.Name, Value: g.constOfType(a.Type, 2)})
				}
			}
			out = append(out, ad)
		}
		used[d.Name] = true
	}
	if loc == "FIELD_DEFINITION" || loc == "ENUM_VALUE" || loc == "ARGUMENT_DEFINITION" || loc == "INPUT_FIELD_DEFINITION" {
		if g.chance("deprecated", 6) && !used["deprecated"] {
			d := &ref.Directive{Name: "deprecated"}
			if g.chance("reason", 2) {
				d.Args = []*ref.Arg{{Name: "reason", Value: &ref.Value{Kind: "String", Raw: "old"}}}
			}
			out = append(out, d)
		}
	}
	return out
}

func (g *schemaGen) description() string {
	if !g.chance("hasdesc", 4) {
		return ""
	}
	return rapid.SampledFrom([]string{"plain", "two\nlines", "with \"quotes\"", "back\\slash", "é😀", "  indented", "trailing  ", "a \"\"\" b", "\"", "ends with quote\"", "l1\n  l2\nl3"}).Draw(g.t, "desc")
}

func (g *schemaGen) argDefs(label string) []*ref.ArgDef {
	n := 0
	if g.chance(label+"hasargs", 2) {
		n = rapid.IntRange(1, 3).Draw(g.t, label+"nargs")
	}
	var out []*ref.ArgDef
	used := map[string]bool{}
	for i := 0; i < n; i++ {
		name := g.pick(label+"argname", argNames)
		if used[name] {
			continue
		}
		used[name] = true
		a := &ref.ArgDef{Name: name, Desc: g.description(), Type: g.wrap(label+"arg", g.pick(label+"argtype", g.inputTypeNames()), true)}
		if g.chance(label+"argdefault", 3) {
			a.Default = g.constOfType(a.Type, 2)
		}
		a.Directives = g.applied("ARGUMENT_DEFINITION")
		out = append(out, a)
	}
	return out
}

func cloneType(t *ref.Type) *ref.Type {
	if t == nil {
		return nil
	}
	c := *t
	c.Elem = cloneType(t.Elem)
	return &c
}

// narrow returns a covariant variant of the interface field type.
func (g *schemaGen) narrow(t *ref.Type) *ref.Type {
	c := cloneType(t)
	if !c.NonNull && g.chance("narrownn", 3) {
		c.NonNull = true
	}
	if c.Elem != nil && !c.Elem.NonNull && g.chance("narrowinner", 4) {
		c.Elem.NonNull = true
	}
	// narrow a named abstract type to one of its possible types
	inner := c
	for inner.Elem != nil {
		inner = inner.Elem
	}
	if def := g.defs[inner.Name]; def != nil && g.chance("narrowname", 2) {
		switch def.Kind {
		case "UNION":
			if len(def.Types) > 0 {
				inner.Name = g.pick("narrowmember", def.Types)
			}
		case "INTERFACE":
			var impls []string
			for _, n := range append(append([]string{}, g.objects...), g.interfaces...) {
				if d := g.defs[n]; d != nil && contains(d.Interfaces, def.Name) {
					impls = append(impls, n)
				}
			}
			if len(impls) > 0 {
				inner.Name = g.pick("narrowimpl", impls)
			}
		}
	}
	return c
}

func contains(l []string, s string) bool {
	for _, x := range l {
		if x == s {
			return true
		}
	}
	return false
}

// inheritFields copies the fields required by the interfaces into def. Interfaces are visited
// most-derived first; a field required by several interfaces receives the union of their
// arguments (names of additional arguments are unique per type, so they never clash).
func (g *schemaGen) inheritFields(def *ref.TypeDef) {
	for idx := len(def.Interfaces) - 1; idx >= 0; idx-- {
		in := def.Interfaces[idx]
		for _, rf := range g.defs[in].Fields {
			var f *ref.FieldDef
			for _, x := range def.Fields {
				if x.Name == rf.Name {
					f = x
				}
			}
			fresh := f == nil
			if fresh {
				f = &ref.FieldDef{Name: rf.Name, Desc: g.description(), Type: cloneType(rf.Type)}
			}
			for _, a := range rf.Args {
				has := false
				for _, x := range f.Args {
					if x.Name == a.Name {
						has = true
					}
				}
				if has {
					continue
				}
				ca := *a
				ca.Type = cloneType(a.Type)
				ca.Directives = nil
				if !ca.Type.NonNull && g.chance("dropdefault", 3) {
					ca.Default = nil // a non-null argument keeps its default: it must stay optional with respect to every other interface
				}
				f.Args = append(f.Args, &ca)
			}
			if !fresh {
				continue
			}
			// an additional optional argument
			if g.chance("extraarg", 4) {
				ea := &ref.ArgDef{Name: "ex" + def.Name, Type: &ref.Type{Name: g.pick("extraargtype", ref.BuiltinScalars)}}
				if g.chance("extraargnn", 3) {
					ea.Type.NonNull = true
					ea.Default = g.constOfType(ea.Type, 1)
				}
				f.Args = append(f.Args, ea)
			}
			f.Directives = g.applied("FIELD_DEFINITION")
			def.Fields = append(def.Fields, f)
		}
	}
}

var ifaceFieldNames = map[string][]string{"I1": {"a", "id", "name"}, "I2": {"b", "f1", "items"}, "I3": {"c", "f2", "fa"}}

func (g *schemaGen) ownFields(def *ref.TypeDef, min int) {
	n := rapid.IntRange(min, 4).Draw(g.t, "nown")
	pool := fieldNames
	if def.Kind == "INTERFACE" {
		// unrelated interfaces never declare the same field name, so that any set of them can be implemented together
		pool = ifaceFieldNames[def.Name]
	}
	for i := 0; i < n; i++ {
		name := g.pick("fieldname", pool)
		dup := false
		for _, f := range def.Fields {
			if f.Name == name {
				dup = true
			}
		}
		if dup {
			continue
		}
		f := &ref.FieldDef{Name: name, Desc: g.description(), Type: g.wrap("field", g.pick("fieldtype", g.outputTypeNames()), true), Args: g.argDefs("f")}
		f.Directives = g.applied("FIELD_DEFINITION")
		def.Fields = append(def.Fields, f)
	}
}

// closure of interface set under "implements"
func (g *schemaGen) closeInterfaces(sel []string) []string {
	out := []string{}
	var add func(n string)
	add = func(n string) {
		if contains(out, n) {
			return
		}
		for _, p := range g.defs[n].Interfaces {
			add(p)
		}
		out = append(out, n)
	}
	for _, n := range sel {
		add(n)
	}
	return out
}

// SchemaOpts tune the generator.
type SchemaOpts struct {
	// NoNarrowing disables covariant narrowing (used by checks that compare field types exactly).
	NoNarrowing bool
}

// TypedSchema generates a valid type system.
func TypedSchema() *rapid.Generator[SchemaTree] {
	return rapid.Custom(func(t *rapid.T) SchemaTree {
		g := &schemaGen{t: t, doc: &ref.SchemaDoc{}, defs: map[string]*ref.TypeDef{}}
		customRoots := g.chance("customroots", 3)
		queryName := "Query"
		if customRoots && !g.chance("defaultqueryname", 3) {
			queryName = "RootQ"
		}
		// names of each kind
		nobj := rapid.IntRange(1, 4).Draw(t, "nobj")
		objPool := []string{"O1", "O2", "O3", "Ta", "Tb", "Tc"}
		if customRoots {
			objPool = append(objPool, "Mutation", "Subscription", "Query")
		}
		g.objects = []string{queryName}
		for i := 0; i < nobj; i++ {
			n := g.pick("objname", objPool)
			if !contains(g.objects, n) {
				g.objects = append(g.objects, n)
			}
		}
		hasMutation := g.chance("mutation", 2)
		hasSubscription := g.chance("subscription", 2)
		mutName, subName := "Mutation", "Subscription"
		if customRoots && !g.chance("defaultmutname", 3) {
			mutName = "M2"
		}
		if customRoots && !g.chance("defaultsubname", 3) {
			subName = "Sub2"
		}
		if hasMutation && !contains(g.objects, mutName) {
			g.objects = append(g.objects, mutName)
		}
		if hasSubscription && !contains(g.objects, subName) {
			g.objects = append(g.objects, subName)
		}
		// with an explicit schema definition, a type of another kind may carry the default name of a
		// root that is absent or named differently (`enum Mutation`): it must not become a root
		taken := map[string]bool{}
		rootLike := func(fallback string) string {
			if !customRoots || !g.chance("rootlikename", 5) {
				return fallback
			}
			for _, n := range []string{"Mutation", "Subscription", "Query"} {
				if !taken[n] && !contains(g.objects, n) && g.chance("whichrootlike", 2) {
					taken[n] = true
					return n
				}
			}
			return fallback
		}
		for i, n := 0, rapid.IntRange(0, 3).Draw(t, "nint"); i < n; i++ {
			g.interfaces = append(g.interfaces, fmt.Sprintf("I%d", i+1)) // (names key the field-name pools: not renamed)
		}
		for i, n := 0, rapid.IntRange(0, 2).Draw(t, "nunion"); i < n; i++ {
			g.unions = append(g.unions, rootLike(fmt.Sprintf("U%d", i+1)))
		}
		for i, n := 0, rapid.IntRange(1, 2).Draw(t, "nenum"); i < n; i++ {
			g.enums = append(g.enums, rootLike(fmt.Sprintf("E%d", i+1)))
		}
		g.inputBias = g.chance("inputbias", 4)
		for i, n := 0, rapid.IntRange(1, 3).Draw(t, "ninput"); i < n || (g.inputBias && i < 2); i++ {
			g.inputs = append(g.inputs, rootLike(fmt.Sprintf("In%d", i+1)))
		}
		for i, n := 0, rapid.IntRange(0, 2).Draw(t, "nscalar"); i < n; i++ {
			g.scalars = append(g.scalars, rootLike([]string{"Date", "JSON"}[i]))
		}

		// enums and scalars first (needed for literals)
		for _, n := range g.scalars {
			g.defs[n] = &ref.TypeDef{Kind: "SCALAR", Name: n, Desc: g.description()}
		}
		for _, n := range g.enums {
			d := &ref.TypeDef{Kind: "ENUM", Name: n, Desc: g.description()}
			for i, k := 0, rapid.IntRange(1, 4).Draw(t, "nvalues"); i < k; i++ {
				v := g.pick("evalue", enumValueNames)
				dup := false
				for _, e := range d.EnumValues {
					if e.Name == v {
						dup = true
					}
				}
				if !dup {
					d.EnumValues = append(d.EnumValues, &ref.EnumVal{Name: v, Desc: g.description()})
				}
			}
			g.defs[n] = d
		}
		// input objects: fields refer to inputs generated so far or, through nullable/list positions, to any
		for _, n := range g.inputs {
			g.defs[n] = &ref.TypeDef{Kind: "INPUT_OBJECT", Name: n, Desc: g.description()}
		}
		if len(g.inputs) > 1 && (g.chance("oneof", 2) || g.inputBias) {
			g.oneOf = g.inputs[len(g.inputs)-1]
		}
		for idx, n := range g.inputs {
			d := g.defs[n]
			for i, k := 0, rapid.IntRange(1, 4).Draw(t, "ninfields"); i < k; i++ {
				name := g.pick("infield", fieldNames)
				dup := false
				for _, f := range d.Fields {
					if f.Name == name {
						dup = true
					}
				}
				if dup {
					continue
				}
				base := g.pick("infieldtype", g.inputTypeNames())
				f := &ref.FieldDef{Name: name, Desc: g.description()}
				if n == g.oneOf && len(d.Fields) == 0 {
					base = g.pick("oneoffirst", ref.BuiltinScalars)
				}
				if n == g.oneOf {
					f.Type = &ref.Type{Name: base}
					if g.chance("oneoflist", 4) {
						f.Type = &ref.Type{Elem: &ref.Type{Name: base}}
					}
				} else {
					f.Type = g.wrap("infield", base, true)
					// recursion only through nullable positions
					if bd := g.defs[base]; bd != nil && bd.Kind == "INPUT_OBJECT" {
						later := false
						for j, m := range g.inputs {
							if m == base && j >= idx {
								later = true
							}
						}
						if later {
							f.Type.NonNull = false
							if f.Type.Elem == nil {
								// plain nullable reference
							}
						}
					}
				}
				d.Fields = append(d.Fields, f)
			}
			if n == g.oneOf {
				d.Directives = append(d.Directives, &ref.Directive{Name: "oneOf"})
			}
		}
		// defaults for input fields once all inputs exist (literals need complete definitions)
		for _, n := range g.inputs {
			if n == g.oneOf {
				continue
			}
			for _, f := range g.defs[n].Fields {
				if g.chance("infdefault", 4) {
					f.Default = g.constOfType(f.Type, 1)
				}
			}
		}

		// directive definitions
		execLocs := []string{"QUERY", "MUTATION", "SUBSCRIPTION", "FIELD", "FRAGMENT_DEFINITION", "FRAGMENT_SPREAD", "INLINE_FRAGMENT", "VARIABLE_DEFINITION"}
		tsLocs := []string{"SCHEMA", "SCALAR", "OBJECT", "FIELD_DEFINITION", "ARGUMENT_DEFINITION", "INTERFACE", "UNION", "ENUM", "ENUM_VALUE", "INPUT_OBJECT", "INPUT_FIELD_DEFINITION"}
		for i, k := 0, rapid.IntRange(0, 3).Draw(t, "ndirs"); i < k; i++ {
			d := &ref.DirectiveDef{Name: fmt.Sprintf("d%d", i+1), Desc: g.description(), Repeatable: g.chance("repeatable", 3)}
			pool := append(append([]string{}, execLocs...), tsLocs...)
			for j, m := 0, rapid.IntRange(1, 6).Draw(t, "nlocs"); j < m; j++ {
				l := g.pick("loc", pool)
				if !contains(d.Locations, l) {
					d.Locations = append(d.Locations, l)
				}
			}
			used := map[string]bool{}
			for j, m := 0, rapid.IntRange(0, 2).Draw(t, "ndargs"); j < m; j++ {
				name := g.pick("dargname", argNames)
				if used[name] {
					continue
				}
				used[name] = true
				a := &ref.ArgDef{Name: name, Desc: g.description(), Type: g.wrap("darg", g.pick("dargtype", g.inputTypeNames()), true)}
				if g.chance("dargdefault", 3) {
					a.Default = g.constOfType(a.Type, 1)
				}
				d.Args = append(d.Args, a)
			}
			g.dirs = append(g.dirs, d)
		}

		// a schema may declare a directive of the specification itself (section 3.13), here with one
		// more argument or location than the prelude gives it
		if g.chance("redeclare", 5) {
			str := func(nonNull bool) *ref.Type { return &ref.Type{Name: "String", NonNull: nonNull} }
			switch rapid.IntRange(0, 2).Draw(t, "which") {
			case 0:
				g.dirs = append(g.dirs, &ref.DirectiveDef{Name: "deprecated", Desc: g.description(), Locations: []string{"FIELD_DEFINITION", "ARGUMENT_DEFINITION", "INPUT_FIELD_DEFINITION", "ENUM_VALUE", "OBJECT"},
					Args: []*ref.ArgDef{{Name: "reason", Type: str(false), Default: &ref.Value{Kind: "String", Raw: "No longer supported"}}, {Name: "removedIn", Desc: g.description(), Type: str(false)}}})
			case 1:
				g.dirs = append(g.dirs, &ref.DirectiveDef{Name: "include", Desc: g.description(), Locations: []string{"FIELD", "FRAGMENT_SPREAD", "INLINE_FRAGMENT", "QUERY"},
					Args: []*ref.ArgDef{{Name: "if", Type: &ref.Type{Name: "Boolean", NonNull: true}}}})
			default:
				g.dirs = append(g.dirs, &ref.DirectiveDef{Name: "skip", Locations: []string{"FIELD", "FRAGMENT_SPREAD", "INLINE_FRAGMENT"},
					Args: []*ref.ArgDef{{Name: "if", Type: &ref.Type{Name: "Boolean", NonNull: true}}, {Name: "orElse", Type: &ref.Type{Name: "Boolean"}, Default: &ref.Value{Kind: "Boolean", Raw: "false"}}}})
			}
		}

		// interfaces in order; each may implement earlier ones
		for _, n := range g.interfaces {
			g.defs[n] = &ref.TypeDef{Kind: "INTERFACE", Name: n, Desc: g.description()}
		}
		for _, n := range g.objects {
			g.defs[n] = &ref.TypeDef{Kind: "OBJECT", Name: n, Desc: g.description()}
		}
		for _, n := range g.unions {
			g.defs[n] = &ref.TypeDef{Kind: "UNION", Name: n, Desc: g.description()}
		}
		for idx, n := range g.interfaces {
			d := g.defs[n]
			var sel []string
			for _, p := range g.interfaces[:idx] {
				if g.chance("iimpl", 2) {
					sel = append(sel, p)
				}
			}
			d.Interfaces = g.closeInterfaces(sel)
			g.inheritFields(d)
			g.ownFields(d, 1)
			if len(d.Fields) == 0 {
				d.Fields = append(d.Fields, &ref.FieldDef{Name: "id", Type: &ref.Type{Name: "ID"}})
			}
		}
		// objects: every interface gets at least one implementer
		for oi, n := range g.objects {
			d := g.defs[n]
			var sel []string
			for ii, p := range g.interfaces {
				if g.chance("oimpl", 3) || (oi == len(g.objects)-1-(ii%len(g.objects)) && !g.hasObjectImpl(p)) {
					sel = append(sel, p)
				}
			}
			d.Interfaces = g.closeInterfaces(sel)
		}
		for _, p := range g.interfaces {
			if !g.hasObjectImpl(p) {
				d := g.defs[g.objects[len(g.objects)-1]]
				d.Interfaces = g.closeInterfaces(append(d.Interfaces, p))
			}
		}
		for _, n := range g.unions {
			d := g.defs[n]
			for _, o := range g.objects {
				if g.chance("member", 2) {
					d.Types = append(d.Types, o)
				}
			}
			if len(d.Types) == 0 {
				d.Types = []string{g.pick("member1", g.objects)}
			}
		}
		for _, n := range g.objects {
			d := g.defs[n]
			g.inheritFields(d)
			g.ownFields(d, 1)
			if len(d.Fields) == 0 {
				d.Fields = append(d.Fields, &ref.FieldDef{Name: "id", Type: &ref.Type{Name: "ID"}})
			}
		}
		// covariant narrowing of inherited fields (after all definitions exist)
		for _, n := range append(append([]string{}, g.interfaces...), g.objects...) {
			d := g.defs[n]
			for _, in := range d.Interfaces {
				for _, rf := range g.defs[in].Fields {
					for _, f := range d.Fields {
						if f.Name == rf.Name && g.chance("narrow", 3) {
							nt := g.narrow(f.Type)
							// must stay covariant with every interface that requires the field
							ok := true
							tmp := &ref.Schema{Types: g.defs}
							for _, in2 := range d.Interfaces {
								for _, rf2 := range g.defs[in2].Fields {
									if rf2.Name == f.Name && !tmp.CovariantExported(rf2.Type, nt) {
										ok = false
									}
								}
							}
							// and implementers of d (if d is an interface) must stay covariant with d
							if d.Kind == "INTERFACE" {
								ok = false
							}
							if ok {
								f.Type = nt
							}
						}
					}
				}
			}
		}
		// applied directives on types
		for _, n := range g.allTypeNames() {
			d := g.defs[n]
			d.Directives = append(d.Directives, g.applied(d.Kind)...)
			if d.Kind == "ENUM" {
				for _, e := range d.EnumValues {
					e.Directives = g.applied("ENUM_VALUE")
				}
			}
			if d.Kind == "INPUT_OBJECT" {
				for _, f := range d.Fields {
					f.Directives = g.applied("INPUT_FIELD_DEFINITION")
				}
			}
			if d.Kind == "SCALAR" && g.chance("specifiedby", 3) {
				d.Directives = append(d.Directives, &ref.Directive{Name: "specifiedBy", Args: []*ref.Arg{{Name: "url", Value: &ref.Value{Kind: "String", Raw: "https://example.com/" + n}}}})
			}
		}

		// assemble pieces, splitting some members off into extensions
		var order []TopItem
		addDef := func(d *ref.TypeDef) {
			g.doc.Defs = append(g.doc.Defs, d)
			order = append(order, TopItem{"def", len(g.doc.Defs) - 1})
		}
		addExt := func(d *ref.TypeDef) {
			g.doc.Exts = append(g.doc.Exts, d)
			order = append(order, TopItem{"ext", len(g.doc.Exts) - 1})
		}
		for _, n := range g.allTypeNames() {
			d := g.defs[n]
			base := *d
			if g.chance("split", 3) {
				ext := &ref.TypeDef{Kind: d.Kind, Name: d.Name}
				switch d.Kind {
				case "OBJECT", "INTERFACE", "INPUT_OBJECT":
					if len(d.Fields) > 1 {
						k := rapid.IntRange(1, len(d.Fields)-1).Draw(t, "splitat")
						base.Fields, ext.Fields = d.Fields[:k:k], d.Fields[k:]
					}
					if len(d.Fields) > 0 && g.chance("bodyless", 5) {
						// a definition without a field block; every field comes from the extension
						base.Fields, ext.Fields = nil, d.Fields
					}
					if d.Kind != "INPUT_OBJECT" && len(d.Interfaces) > 0 && g.chance("splitimpl", 2) {
						base.Interfaces, ext.Interfaces = nil, d.Interfaces
					}
				case "ENUM":
					if len(d.EnumValues) > 1 {
						k := rapid.IntRange(1, len(d.EnumValues)-1).Draw(t, "splitat")
						base.EnumValues, ext.EnumValues = d.EnumValues[:k:k], d.EnumValues[k:]
					}
				case "UNION":
					if len(d.Types) > 1 {
						k := rapid.IntRange(1, len(d.Types)-1).Draw(t, "splitat")
						base.Types, ext.Types = d.Types[:k:k], d.Types[k:]
					}
				}
				if len(d.Directives) > 0 && g.chance("splitdirs", 2) {
					base.Directives, ext.Directives = nil, d.Directives
				}
				nonEmpty := len(ext.Fields)+len(ext.EnumValues)+len(ext.Types)+len(ext.Directives)+len(ext.Interfaces) > 0
				addDef(&base)
				if nonEmpty {
					// sometimes two extensions of the same type
					if g.chance("twoexts", 2) {
						ext2 := &ref.TypeDef{Kind: d.Kind, Name: d.Name}
						if n := len(ext.Fields); n > 1 {
							k := rapid.IntRange(1, n-1).Draw(t, "split2at")
							ext.Fields, ext2.Fields = ext.Fields[:k:k], ext.Fields[k:]
						}
						if n := len(ext.EnumValues); n > 1 {
							k := rapid.IntRange(1, n-1).Draw(t, "split2at")
							ext.EnumValues, ext2.EnumValues = ext.EnumValues[:k:k], ext.EnumValues[k:]
						}
						if n := len(ext.Types); n > 1 {
							k := rapid.IntRange(1, n-1).Draw(t, "split2at")
							ext.Types, ext2.Types = ext.Types[:k:k], ext.Types[k:]
						}
						if n := len(ext.Directives); n > 1 {
							k := rapid.IntRange(1, n-1).Draw(t, "split2at")
							ext.Directives, ext2.Directives = ext.Directives[:k:k], ext.Directives[k:]
						} else if n == 1 && len(ext.Fields)+len(ext.EnumValues)+len(ext.Types)+len(ext.Interfaces) > 0 && g.chance("dirsto2", 2) {
							ext.Directives, ext2.Directives = nil, ext.Directives
						}
						if len(ext.Interfaces) > 0 && len(ext.Fields)+len(ext.Directives) > 0 && g.chance("implto2", 2) {
							ext.Interfaces, ext2.Interfaces = nil, ext.Interfaces
						}
						addExt(ext)
						if len(ext2.Fields)+len(ext2.EnumValues)+len(ext2.Types)+len(ext2.Directives)+len(ext2.Interfaces) > 0 {
							addExt(ext2)
						}
						continue
					}
					addExt(ext)
				}
				continue
			}
			addDef(&base)
		}
		for _, d := range g.dirs {
			g.doc.Directives = append(g.doc.Directives, d)
			order = append(order, TopItem{"directive", len(g.doc.Directives) - 1})
		}
		if customRoots {
			sd := &ref.SchemaDef{Desc: g.description(), Directives: g.applied("SCHEMA")}
			sd.Ops = append(sd.Ops, &ref.OpType{Op: "query", Type: queryName})
			var extOps []*ref.OpType
			if hasMutation {
				if g.chance("mutinext", 3) {
					extOps = append(extOps, &ref.OpType{Op: "mutation", Type: mutName})
				} else {
					sd.Ops = append(sd.Ops, &ref.OpType{Op: "mutation", Type: mutName})
				}
			}
			if hasSubscription {
				sd.Ops = append(sd.Ops, &ref.OpType{Op: "subscription", Type: subName})
			}
			g.doc.Schemas = append(g.doc.Schemas, sd)
			order = append(order, TopItem{"schema", 0})
			if len(extOps) > 0 {
				g.doc.SchemaExts = append(g.doc.SchemaExts, &ref.SchemaDef{Ops: extOps})
				order = append(order, TopItem{"schemaext", 0})
			}
		} else if dirs := g.applied("SCHEMA"); len(dirs) > 0 {
			g.doc.SchemaExts = append(g.doc.SchemaExts, &ref.SchemaDef{Directives: dirs})
			order = append(order, TopItem{"schemaext", 0})
		}
		return SchemaTree{Doc: g.doc, Order: order}
	})
}

func (g *schemaGen) hasObjectImpl(iface string) bool {
	for _, o := range g.objects {
		if contains(g.defs[o].Interfaces, iface) {
			return true
		}
	}
	return false
}

func (g *schemaGen) allTypeNames() []string {
	var out []string
	out = append(out, g.scalars...)
	out = append(out, g.enums...)
	out = append(out, g.inputs...)
	out = append(out, g.interfaces...)
	out = append(out, g.objects...)
	out = append(out, g.unions...)
	sort.Strings(out)
	return out
}

// uniqueKeys: no object literal inside v names a field twice.
func uniqueKeys(v *ref.Value) bool {
	seen := map[string]bool{}
	for _, f := range v.Fields {
		if seen[f.Name] || !uniqueKeys(f.Value) {
			return false
		}
		seen[f.Name] = true
	}
	for _, i := range v.Items {
		if !uniqueKeys(i) {
			return false
		}
	}
	return true
}

// ExtendBuiltin adds an extension of a built-in (prelude) type to the tree: legal for the
// loader, and the only way user text touches definitions that are shared between loads.
func ExtendBuiltin(t *rapid.T, st *SchemaTree) {
	var ext *ref.TypeDef
	switch rapid.IntRange(0, 3).Draw(t, "builtinext") {
	case 0:
		ext = &ref.TypeDef{Kind: "OBJECT", Name: rapid.SampledFrom([]string{"__Field", "__Type", "__Schema"}).Draw(t, "bt"), Fields: []*ref.FieldDef{{Name: "extra", Type: &ref.Type{Name: "Int"}}}}
	case 1:
		ext = &ref.TypeDef{Kind: "SCALAR", Name: rapid.SampledFrom([]string{"String", "ID", "Float"}).Draw(t, "bs"), Directives: []*ref.Directive{{Name: "specifiedBy", Args: []*ref.Arg{{Name: "url", Value: &ref.Value{Kind: "String", Raw: "https://example.com/s"}}}}}}
	case 2:
		ext = &ref.TypeDef{Kind: "ENUM", Name: "__TypeKind", EnumValues: []*ref.EnumVal{{Name: "EXTRA"}}}
	default:
		ext = &ref.TypeDef{Kind: "OBJECT", Name: "__EnumValue", Fields: []*ref.FieldDef{{Name: "extra2", Type: &ref.Type{Name: "String"}, Directives: []*ref.Directive{{Name: "deprecated"}}}}}
	}
	st.Doc.Exts = append(st.Doc.Exts, ext)
	st.Order = append(st.Order, TopItem{"ext", len(st.Doc.Exts) - 1})
}
