package gen

import (
	"encoding/json"
	"fmt"
	"strings"

	"pgregory.net/rapid"

	"verif/harness/ref"
)

// G10: variable types and JSON-like Go values for them.

const VarsSchemaTypes = `
scalar Date
enum Color { RED GREEN BLUE }
input Leaf { i: Int s: String! = "d" e: Color }
input Node { id: ID! leaf: Leaf leaves: [Leaf!] child: Node tags: [[String]] f: Float b: Boolean d: Date e: Color! = GREEN }
input Pick @oneOf { a: Int b: String }
`

var varBaseTypes = []string{"Int", "Float", "String", "Boolean", "ID", "Color", "Leaf", "Node", "Pick", "Date"}

// VarType draws a variable type: list depth up to 3 with every non-null pattern.
func VarType() *rapid.Generator[*ref.Type] {
	return rapid.Custom(func(t *rapid.T) *ref.Type {
		ty := &ref.Type{Name: rapid.SampledFrom(varBaseTypes).Draw(t, "base"), NonNull: rapid.Bool().Draw(t, "nn0")}
		depth := rapid.SampledFrom([]int{0, 0, 0, 1, 1, 2, 3}).Draw(t, "depth")
		for i := 0; i < depth; i++ {
			ty = &ref.Type{Elem: ty, NonNull: rapid.Bool().Draw(t, "nn")}
		}
		return ty
	})
}

// VarsCase: an operation with declared variables on the probe schema.
type VarsCase struct {
	Types    []*ref.Type
	Defaults []*ref.Value // nil when the variable has no default
	Schema   string
	Query    string
}

func valueText(v *ref.Value) string {
	l := &lexer{choose: Canon}
	l.value(v)
	return JoinPlain(l.out)
}

// VarsOperation generates the schema and operation for n variables.
func VarsOperation(t *rapid.T, s *ref.Schema) VarsCase {
	var c VarsCase
	n := rapid.IntRange(1, 4).Draw(t, "nvars")
	var args, decls, uses []string
	lookup := func(n string) *ref.TypeDef { return s.Types[n] }
	for i := 0; i < n; i++ {
		ty := VarType().Draw(t, "type")
		c.Types = append(c.Types, ty)
		args = append(args, fmt.Sprintf("p%d: %s", i, ty))
		d := fmt.Sprintf("$v%d: %s", i, ty)
		var def *ref.Value
		if rapid.IntRange(0, 3).Draw(t, "hasdefault") == 0 {
			def = ConstOfType(t, lookup, ty, 2, true)
			// keep defaults convertible by every consumer: no huge numbers inside custom scalars
			if !strings.Contains(valueText(def), "123456789012345678901234567890") && !strings.Contains(valueText(def), "9223372036854775808") && !strings.Contains(valueText(def), "1e999") {
				d += " = " + valueText(def)
			} else {
				def = nil
			}
		}
		c.Defaults = append(c.Defaults, def)
		decls = append(decls, d)
		uses = append(uses, fmt.Sprintf("p%d: $v%d", i, i))
	}
	c.Schema = VarsSchemaTypes + "type Query { probe(" + strings.Join(args, ", ") + "): Int }\n"
	c.Query = "query Q(" + strings.Join(decls, ", ") + ") { probe(" + strings.Join(uses, ", ") + ") }"
	return c
}

// VarsSchema parses the fixed input type system (for literal generation).
func VarsSchema() *ref.Schema {
	lr := ref.Lex([]rune(VarsSchemaTypes+"type Query { a: Int }"), ref.LexOpts{})
	d, _ := ref.ParseSchema(ref.StripComments(lr.Toks), ref.ParseOpts{})
	m, _, _ := ref.Merge(d)
	return m
}

// ConformingValue draws a Go value that conforms to ty, in a randomly chosen JSON-like representation.
func ConformingValue(t *rapid.T, s *ref.Schema, ty *ref.Type, depth int) interface{} {
	if !ty.NonNull && rapid.IntRange(0, 6).Draw(t, "null") == 0 {
		return nil
	}
	if ty.Elem != nil {
		// a single value where a list is expected is legal (coerced to a list of one)
		if ty.Elem.Elem == nil && rapid.IntRange(0, 5).Draw(t, "single") == 0 {
			inner := *ty.Elem
			inner.NonNull = true
			return ConformingValue(t, s, &inner, depth-1)
		}
		n := rapid.IntRange(0, 3).Draw(t, "len")
		// typed slices for flat lists of scalars
		if ty.Elem.Elem == nil && ty.Elem.NonNull && rapid.IntRange(0, 2).Draw(t, "typed") == 0 {
			switch ty.Elem.Name {
			case "Int":
				out := make([]int, n)
				for i := range out {
					out[i] = rapid.IntRange(-5, 5).Draw(t, "int")
				}
				return out
			case "String", "ID":
				out := make([]string, n)
				for i := range out {
					out[i] = rapid.SampledFrom([]string{"a", "", "x y"}).Draw(t, "str")
				}
				return out
			case "Float":
				out := make([]float64, n)
				for i := range out {
					out[i] = float64(rapid.IntRange(-4, 4).Draw(t, "fl")) / 2
				}
				return out
			case "Leaf", "Node":
				out := make([]map[string]interface{}, n)
				for i := range out {
					out[i] = ConformingValue(t, s, &ref.Type{Name: ty.Elem.Name, NonNull: true}, depth-1).(map[string]interface{})
				}
				return out
			}
		}
		out := make([]interface{}, n)
		for i := range out {
			out[i] = ConformingValue(t, s, ty.Elem, depth-1)
		}
		return out
	}
	switch ty.Name {
	case "Int":
		n := rapid.IntRange(-3, 100).Draw(t, "int")
		switch rapid.IntRange(0, 4).Draw(t, "intrepr") {
		case 0:
			return n
		case 1:
			return int64(n)
		case 2:
			return float64(n)
		case 3:
			return json.Number(fmt.Sprint(n))
		default:
			return int32(n)
		}
	case "Float":
		f := float64(rapid.IntRange(-8, 8).Draw(t, "fl")) / 4
		switch rapid.IntRange(0, 3).Draw(t, "flrepr") {
		case 0:
			return f
		case 1:
			return int(f)
		case 2:
			return json.Number(fmt.Sprint(f))
		default:
			return float32(f)
		}
	case "String":
		return rapid.SampledFrom([]string{"", "s", "é", "12", "true"}).Draw(t, "string")
	case "Boolean":
		return rapid.Bool().Draw(t, "bool")
	case "ID":
		if rapid.Bool().Draw(t, "idint") {
			return rapid.IntRange(0, 9).Draw(t, "idn")
		}
		return rapid.SampledFrom([]string{"id", "7"}).Draw(t, "ids")
	case "Date":
		return rapid.SampledFrom([]interface{}{"2020-01-01", 5, 1.5, true, map[string]interface{}{"y": 2020}, []interface{}{1, "a"}}).Draw(t, "date")
	}
	def := s.Types[ty.Name]
	if def == nil {
		return nil
	}
	switch def.Kind {
	case "SCALAR":
		return rapid.SampledFrom([]interface{}{"custom", 5, 1.5, true, map[string]interface{}{"y": 2020}, []interface{}{1, "a"}}).Draw(t, "customscalar")
	case "ENUM":
		return rapid.SampledFrom(def.EnumValues).Draw(t, "enum").Name
	case "INPUT_OBJECT":
		out := map[string]interface{}{}
		if hasDirective(def, "oneOf") {
			f := rapid.SampledFrom(def.Fields).Draw(t, "oneof")
			nn := *f.Type
			nn.NonNull = true
			out[f.Name] = ConformingValue(t, s, &nn, depth-1)
			return out
		}
		for _, f := range def.Fields {
			required := f.Type.NonNull && f.Default == nil
			if required || (depth > 0 && rapid.Bool().Draw(t, "opt")) {
				if depth <= 0 && !f.Type.NonNull {
					out[f.Name] = nil
					continue
				}
				out[f.Name] = ConformingValue(t, s, f.Type, depth-1)
			}
		}
		return out
	}
	return nil
}

// DefectNames lists the value defect operators.
var VarDefects = []string{"null-at-depth", "wrong-kind", "unknown-field", "missing-required-field", "wrong-case-enum", "unknown-enum", "fraction-for-int", "map-for-list", "list-for-scalar"}

// InjectDefect damages a conforming value so that it cannot conform to ty any more. ok=false
// if the defect has no target in this value.
func InjectDefect(t *rapid.T, s *ref.Schema, ty *ref.Type, v interface{}, defect string) (out interface{}, ok bool) {
	// walk to a random position of the right shape; paths are explored depth first with a coin
	var walk func(ty *ref.Type, v interface{}) (interface{}, bool)
	walk = func(ty *ref.Type, v interface{}) (interface{}, bool) {
		// descend first, sometimes
		switch x := v.(type) {
		case []interface{}:
			if ty.Elem != nil && len(x) > 0 && rapid.Bool().Draw(t, "descend") {
				i := rapid.IntRange(0, len(x)-1).Draw(t, "idx")
				if nv, ok := walk(ty.Elem, x[i]); ok {
					c := append([]interface{}{}, x...)
					c[i] = nv
					return c, true
				}
			}
		case map[string]interface{}:
			def := s.Types[ty.Name]
			if ty.Elem == nil && def != nil && def.Kind == "INPUT_OBJECT" && len(x) > 0 && rapid.Bool().Draw(t, "descend") {
				for _, f := range def.Fields {
					if fv, present := x[f.Name]; present {
						if nv, ok := walk(f.Type, fv); ok {
							c := map[string]interface{}{}
							for k, vv := range x {
								c[k] = vv
							}
							c[f.Name] = nv
							return c, true
						}
					}
				}
			}
		}
		def := s.Types[ty.Base()]
		switch defect {
		case "null-at-depth":
			if ty.NonNull && v != nil {
				return nil, true
			}
		case "wrong-kind":
			if ty.Elem != nil || v == nil {
				return nil, false
			}
			switch ty.Name {
			case "Int":
				return rapid.SampledFrom([]interface{}{"abc", true, map[string]interface{}{}}).Draw(t, "wk"), true
			case "Float":
				return rapid.SampledFrom([]interface{}{"abc", true}).Draw(t, "wk"), true
			case "String":
				return rapid.SampledFrom([]interface{}{1, true, 1.5}).Draw(t, "wk"), true
			case "Boolean":
				return rapid.SampledFrom([]interface{}{"true", 1, 0.0}).Draw(t, "wk"), true
			case "ID":
				return rapid.SampledFrom([]interface{}{true, 1.5}).Draw(t, "wk"), true
			case "Color":
				return rapid.SampledFrom([]interface{}{true, 1.5, map[string]interface{}{}}).Draw(t, "wk"), true
			case "Leaf", "Node", "Pick":
				return rapid.SampledFrom([]interface{}{"x", 1, true}).Draw(t, "wk"), true
			}
		case "unknown-field":
			if m, isMap := v.(map[string]interface{}); isMap && ty.Elem == nil && def != nil && def.Kind == "INPUT_OBJECT" {
				// (names with two leading underscores are reserved, not exempt: a schema cannot declare them, so they are unknown)
				c := map[string]interface{}{rapid.SampledFrom([]string{"nosuchfield", "nosuchfield", "__typename", "__typenam", "__typenames", "__type", "__x", "_", "__"}).Draw(t, "unknownkey"): rapid.SampledFrom([]interface{}{1, "X", nil}).Draw(t, "unknownval")}
				for k, vv := range m {
					c[k] = vv
				}
				return c, true
			}
		case "missing-required-field":
			if m, isMap := v.(map[string]interface{}); isMap && ty.Elem == nil && def != nil && def.Kind == "INPUT_OBJECT" {
				for _, f := range def.Fields {
					if _, present := m[f.Name]; present && f.Type.NonNull && f.Default == nil {
						c := map[string]interface{}{}
						for k, vv := range m {
							if k != f.Name {
								c[k] = vv
							}
						}
						return c, true
					}
				}
			}
		case "wrong-case-enum":
			if sv, isStr := v.(string); isStr && ty.Elem == nil && ty.Name == "Color" {
				return strings.ToLower(sv), true
			}
		case "unknown-enum":
			if _, isStr := v.(string); isStr && ty.Elem == nil && ty.Name == "Color" {
				return "PURPLE", true
			}
		case "fraction-for-int":
			if ty.Elem == nil && ty.Name == "Int" && v != nil {
				return json.Number("1.5"), true
			}
		case "map-for-list":
			if ty.Elem != nil && v != nil {
				base := s.Types[ty.Base()]
				if base != nil && base.Kind == "INPUT_OBJECT" || ty.Base() == "Date" {
					return nil, false // a map could be a (coerced) single item
				}
				return map[string]interface{}{"k": 1}, true
			}
		case "list-for-scalar":
			if ty.Elem == nil && ty.Name != "Date" && v != nil {
				return []interface{}{v}, true
			}
		}
		return nil, false
	}
	return walk(ty, v)
}
