// Package gen holds the rapid generators shared by the checks.
package gen

import (
	"strings"
	"unicode/utf8"

	"pgregory.net/rapid"
)

// Fragments of lexical significance (G1).
var (
	punctuators = []string{"!", "$", "&", "(", ")", "...", ":", "=", "@", "[", "]", "{", "}", "|"}
	names       = []string{"a", "on", "query", "mutation", "subscription", "fragment", "type", "extend", "schema", "implements",
		"repeatable", "true", "false", "null", "_", "__typename", "A1", "e", "E", "x_y", "FIELD", "input", "enum", "union", "scalar", "interface", "directive"}
	numbers = []string{"0", "-0", "00", "01", "1", "-1", "123", "1.", "1.5", "-1.5", "1e", "1e+", "1e5", "1E-3", "1.5e-3", "0.0", "-", "--1",
		"1a", "0x", "1.2.3", "1.e5", "1e5e", "9223372036854775808", "1_", "0e0", ".5", "1..2", "2147483648", "1e999"}
	stringsPool = []string{`""`, `"a"`, `"a b"`, `"\n"`, `"\""`, `"\\"`, `"\/"`, `"\b\f\n\r\t"`, `"\u0041"`, `"\u00e9"`, `"\uD83D\uDE00"`, `"\uD800"`,
		`"\u004"`, `"\u00"`, `"\u"`, `"\`, `"\x"`, `"\v"`, `"\uZZZZ"`, `"\u00G0"`, `"abc`, `"a` + "\n" + `"`, `"a` + "\r" + `"`, "\"\t\"", "\"\x7f\"", "\"é\"", "\"😀\"",
		"\"\u2028\"", "\"\uFEFF\"", `"#"`, `","`, `"'"`, `'a'`, `"\ "`, `"\"`}
	blockPool = []string{`""""""`, `"""a"""`, `""" a """`, `"""\"""`, `"""\""""""`, `"""a""""`, `"""a"""""`, `"""a""""""`, `""""a"""`, "\"\"\"a\nb\"\"\"", "\"\"\"\n  a\n   b\n\"\"\"",
		"\"\"\"a\n  b\"\"\"", "\"\"\"  a\n  b\"\"\"", "\"\"\"\ta\n\t b\"\"\"", "\"\"\"a\r\nb\"\"\"", "\"\"\"a\rb\"\"\"", "\"\"\"\n\n\"\"\"", "\"\"\" \n \n a \n \n \"\"\"", `"""`, `""""`, `"""""`,
		`"""\`, `"""a\"""`, `"""a""`, `"""\\"""`, `"""\n"""`, "\"\"\"é\n é\"\"\"", "\"\"\"\x00\"\"\"", "\"\"\"\x7f\"\"\""}
	comments = []string{"#", "# c", "#é😀", "#\t", "#\x7f", "##", "#\"", "#{"}
	ignored  = []string{" ", "  ", "\t", ",", ",,", "\n", "\r", "\r\n", "\n\r", "\uFEFF", " \n "}
	hostile  = []string{"\x00", "\x01", "\x1f", "\x7f", "'", "?", "%", "^", "~", "`", ";", "<", ">", "\\", "/", "*", "+", ".", "..", "....", "\xef", "\xef\xbb", "\xbb\xbf", "\xc3", "\xff", "\xed\xa0\x80", "\xf4\x90\x80\x80", "é", "😀", "\u2028", "\u00a0", "\u200b"}
)

// SoupPools exposes the pools (used to seed fuzz corpora).
func SoupPools() [][]string {
	return [][]string{punctuators, names, numbers, stringsPool, blockPool, comments, ignored, hostile}
}

// Soup generates a byte string as a weighted concatenation of lexical fragments, optionally
// truncated at an arbitrary byte. validUTF8 removes invalid fragments and keeps truncation on
// rune boundaries.
func Soup(validUTF8 bool) *rapid.Generator[string] {
	return rapid.Custom(func(t *rapid.T) string {
		n := rapid.IntRange(0, 24).Draw(t, "nfrag")
		if rapid.IntRange(0, 19).Draw(t, "long") == 0 {
			n = rapid.IntRange(24, 400).Draw(t, "nfragLong")
		}
		var sb strings.Builder
		for i := 0; i < n; i++ {
			var pool []string
			switch rapid.IntRange(0, 15).Draw(t, "pool") {
			case 0, 1, 2:
				pool = punctuators
			case 3, 4:
				pool = names
			case 6:
				pool = numbers
			case 8:
				pool = stringsPool
			case 9, 10:
				pool = blockPool
			case 11:
				pool = comments
			case 12, 13:
				pool = ignored
			case 14:
				pool = hostile
			case 7:
				sb.WriteString(GenStringLiteral(t))
				continue
			case 5:
				sb.WriteString(GenNumberLiteral(t))
				continue
			default:
				// a short random string over a small alphabet
				s := rapid.StringOfN(rapid.RuneFrom([]rune("\"\\un01.-e+a_é#\n\r ,{\uFEFF")), 0, 6, -1).Draw(t, "rnd")
				sb.WriteString(s)
				continue
			}
			f := rapid.SampledFrom(pool).Draw(t, "frag")
			if validUTF8 && !utf8.ValidString(f) {
				continue
			}
			sb.WriteString(f)
			if rapid.IntRange(0, 2).Draw(t, "sep") == 0 {
				sb.WriteString(rapid.SampledFrom(ignored).Draw(t, "ign"))
			}
		}
		s := sb.String()
		if len(s) > 0 && rapid.IntRange(0, 3).Draw(t, "trunc") == 0 {
			k := rapid.IntRange(0, len(s)).Draw(t, "cut")
			if validUTF8 {
				for k > 0 && k < len(s) && !utf8.RuneStart(s[k]) {
					k--
				}
			}
			s = s[:k]
		}
		return s
	})
}

// GenStringLiteral builds a quoted string piece by piece; escapes are mostly well formed, with
// each position of a \u escape occasionally replaced by a character that only a careless
// decoder accepts (sign, underscore, space, 'x', non-hex letter, quote).
func GenStringLiteral(t *rapid.T) string {
	var sb strings.Builder
	sb.WriteByte('"')
	n := rapid.IntRange(0, 5).Draw(t, "npieces")
	for i := 0; i < n; i++ {
		switch rapid.IntRange(0, 5).Draw(t, "piece") {
		case 0:
			sb.WriteString(rapid.SampledFrom([]string{"a", "b c", "é", "😀", "#", ",", "'", "{", "\t", " ", "\u00a0", "\u2028", "\uFEFF", "\uFFFE", "\uE000"}).Draw(t, "plain"))
		case 1:
			sb.WriteString("\\" + rapid.SampledFrom([]string{"\"", "\\", "/", "b", "f", "n", "r", "t"}).Draw(t, "esc"))
		case 2:
			sb.WriteString("\\" + rapid.SampledFrom([]string{"a", "v", "x", "0", "U", " ", "'", "e"}).Draw(t, "badesc"))
		default:
			sb.WriteString("\\u")
			k := 4
			if rapid.IntRange(0, 7).Draw(t, "short") == 0 {
				k = rapid.IntRange(0, 5).Draw(t, "ndigits")
			}
			for j := 0; j < k; j++ {
				if rapid.IntRange(0, 11).Draw(t, "odd") == 0 {
					sb.WriteString(rapid.SampledFrom([]string{"+", "-", "_", " ", "x", "X", "g", "G", ".", "\"", "é", "\\", "{", "}"}).Draw(t, "oddc"))
				} else {
					sb.WriteString(rapid.SampledFrom([]string{"0", "0", "0", "1", "4", "9", "a", "A", "d", "D", "f", "F", "8", "c", "e", "E"}).Draw(t, "hex"))
				}
			}
		}
	}
	if rapid.IntRange(0, 15).Draw(t, "open") != 0 {
		sb.WriteByte('"')
	}
	return sb.String()
}

// GenNumberLiteral builds a number from its grammar parts, each part occasionally malformed.
func GenNumberLiteral(t *rapid.T) string {
	var sb strings.Builder
	sb.WriteString(rapid.SampledFrom([]string{"", "", "-", "+", "--"}).Draw(t, "sign"))
	sb.WriteString(rapid.SampledFrom([]string{"0", "0", "1", "7", "10", "123", "00", "01", "", "9223372036854775807", "9223372036854775808"}).Draw(t, "int"))
	if rapid.IntRange(0, 2).Draw(t, "hasFrac") == 0 {
		sb.WriteString("." + rapid.SampledFrom([]string{"0", "5", "25", "000", "", "5.", "a"}).Draw(t, "frac"))
	}
	if rapid.IntRange(0, 1).Draw(t, "hasExp") == 0 {
		sb.WriteString(rapid.SampledFrom([]string{"e", "E"}).Draw(t, "e"))
		sb.WriteString(rapid.SampledFrom([]string{"", "", "+", "-", "+-"}).Draw(t, "esign"))
		sb.WriteString(rapid.SampledFrom([]string{"0", "3", "10", "05", "", "999", "e"}).Draw(t, "exp"))
	}
	sb.WriteString(rapid.SampledFrom([]string{"", "", "", "", "a", "_", ".", "e", "x1", "b1", "o7"}).Draw(t, "tail"))
	return sb.String()
}
