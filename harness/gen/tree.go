package gen

import (
	"pgregory.net/rapid"

	"verif/harness/ref"
)

// G3: syntax trees for executable and type-system documents, built from plain model types.

var namePool = []string{"a", "b", "c", "f1", "x_y", "_", "A", "T", "on", "query", "mutation", "subscription", "fragment", "type", "input",
	"enum", "extend", "schema", "implements", "repeatable", "directive", "union", "scalar", "interface", "true", "false", "null", "FIELD", "__typename", "Z9"}

var typeNamePool = []string{"T", "A", "B", "Int", "String", "Q", "on", "query", "type", "input", "_T"}

// HostileStrings: string contents chosen to stress escaping and block-string handling.
var HostileStrings = []string{"", "a", "a b", "\"", "\\", "\"\"\"", "\\\"\"\"", "a\"b", "a\\b", "\\n", "line1\nline2", "  indented", "trailing  ", "\ttab", "a\tb",
	"\n", "\nlead", "trail\n", "  a\n    b\n  c", "a\n  b", " a\n b", "\n\n", " ", "é", "😀", "\u007f", "\u0000", "\u0001", "\u0007", "\u001f", "\u00AD", "\u200B", "\u2028", "\u2029", "\uFEFF",
	"\U000E0001", "\uE000", "\U0010FFFF", "a\rb", "a\r\nb", "#notcomment", "$var", "{}", "[1,2]", "\\u0041", "\\", "\"\"", "\"\"\"\"", "x\"\"\"", "\"\"\"x", "'", "/", "\b\f",
	"on", "query", "null", "true",
	// first or last line consisting of white space only (a block string would drop it)
	"a\n  ", "  \na", "a\n\t", " \n a\n ", "\t\nb\n\n \t",
	// pairs of adjacent runes each of which needs an escape (a decoder that fuses escapes sees them together)
	"\uFEFF\uFFFE", "\uE000\uE001", "\uFFFF\uFFFF", "\u0001\u0002", "\u2028\u2029", "\uFEFF\uFEFF", "\u007f\u0080", "\uF8FF\uE0FF"}

// SpecifiedDirectives are the directive names every schema has without declaring them.
var SpecifiedDirectives = []string{"include", "skip", "deprecated", "specifiedBy", "defer", "oneOf"}

func Name() *rapid.Generator[string]     { return rapid.SampledFrom(namePool) }
func TypeName() *rapid.Generator[string] { return rapid.SampledFrom(typeNamePool) }

// NameNot draws a name different from the given ones.
func nameNot(t *rapid.T, label string, not ...string) string {
	return rapid.SampledFrom(namePool).Filter(func(s string) bool {
		for _, n := range not {
			if s == n {
				return false
			}
		}
		return true
	}).Draw(t, label)
}

func StringContent() *rapid.Generator[string] {
	return rapid.Custom(func(t *rapid.T) string {
		switch rapid.IntRange(0, 5).Draw(t, "strsrc") {
		case 0, 1, 2:
			return rapid.SampledFrom(HostileStrings).Draw(t, "hostile")
		case 3:
			a := rapid.SampledFrom(HostileStrings).Draw(t, "h1")
			b := rapid.SampledFrom(HostileStrings).Draw(t, "h2")
			return a + b
		case 4:
			return rapid.StringOfN(rapid.RuneFrom([]rune("ab \"\\\n\t\ré\u007f\u0001😀#")), 0, 12, -1).Draw(t, "rnd")
		default:
			return rapid.String().Draw(t, "any")
		}
	})
}

func TypeRef(depth int) *rapid.Generator[*ref.Type] {
	return rapid.Custom(func(t *rapid.T) *ref.Type {
		ty := &ref.Type{NonNull: rapid.Bool().Draw(t, "nn")}
		if depth > 0 && rapid.IntRange(0, 2).Draw(t, "list") == 0 {
			ty.Elem = TypeRef(depth-1).Draw(t, "elem")
		} else {
			ty.Name = TypeName().Draw(t, "tname")
		}
		return ty
	})
}

var intPool = []string{"0", "-0", "1", "-1", "42", "2147483647", "2147483648", "-2147483649", "9223372036854775807", "9223372036854775808", "123456789012345678901234567890"}
var floatPool = []string{"0.0", "-0.0", "1.5", "-1.5", "1e3", "1E3", "1e+3", "1e-3", "1.5e10", "0.1e-7", "1e999", "-1.0E+0"}

// integerPart: -? ( 0 | NonZeroDigit Digit* )
func integerPart(t *rapid.T) string {
	sign := rapid.SampledFrom([]string{"", "", "-"}).Draw(t, "sign")
	if rapid.IntRange(0, 2).Draw(t, "zero") == 0 {
		return sign + "0"
	}
	return sign + rapid.StringMatching(`[1-9][0-9]{0,4}`).Draw(t, "digits")
}

// FloatLiteral: IntegerPart followed by a fractional part, an exponent part, or both, every
// alternative of the grammar being reachable (0e0, -0E-3, 0.0e+00, ...).
func FloatLiteral(t *rapid.T) string {
	s := integerPart(t)
	shape := rapid.IntRange(0, 2).Draw(t, "shape")
	if shape != 1 {
		s += "." + rapid.StringMatching(`[0-9]{1,3}`).Draw(t, "frac")
	}
	if shape != 0 {
		s += rapid.SampledFrom([]string{"e", "E"}).Draw(t, "e") + rapid.SampledFrom([]string{"", "+", "-"}).Draw(t, "esign") + rapid.StringMatching(`[0-9]{1,2}`).Draw(t, "exp")
	}
	return s
}

// Value generates a value literal; isConst forbids variables.
func Value(depth int, isConst bool) *rapid.Generator[*ref.Value] {
	return rapid.Custom(func(t *rapid.T) *ref.Value {
		max := 9
		if depth <= 0 {
			max = 7
		}
		k := rapid.IntRange(0, max).Draw(t, "vkind")
		if k == 0 && isConst {
			k = 1
		}
		switch k {
		case 0:
			return &ref.Value{Kind: "Variable", Raw: Name().Draw(t, "var")}
		case 1:
			if rapid.IntRange(0, 2).Draw(t, "intFromGrammar") == 0 {
				return &ref.Value{Kind: "Int", Raw: integerPart(t)}
			}
			return &ref.Value{Kind: "Int", Raw: rapid.SampledFrom(intPool).Draw(t, "int")}
		case 2:
			if rapid.IntRange(0, 1).Draw(t, "floatFromGrammar") == 0 {
				return &ref.Value{Kind: "Float", Raw: FloatLiteral(t)}
			}
			return &ref.Value{Kind: "Float", Raw: rapid.SampledFrom(floatPool).Draw(t, "float")}
		case 3:
			return &ref.Value{Kind: "String", Raw: StringContent().Draw(t, "str")}
		case 4:
			return &ref.Value{Kind: "Block", Raw: BlockContent().Draw(t, "block")}
		case 5:
			return &ref.Value{Kind: "Boolean", Raw: rapid.SampledFrom([]string{"true", "false"}).Draw(t, "bool")}
		case 6:
			return &ref.Value{Kind: "Null", Raw: "null"}
		case 7:
			return &ref.Value{Kind: "Enum", Raw: nameNot(t, "enum", "true", "false", "null")}
		case 8:
			v := &ref.Value{Kind: "List"}
			n := rapid.IntRange(0, 3).Draw(t, "nitems")
			for i := 0; i < n; i++ {
				v.Items = append(v.Items, Value(depth-1, isConst).Draw(t, "item"))
			}
			return v
		default:
			v := &ref.Value{Kind: "Object"}
			n := rapid.IntRange(0, 3).Draw(t, "nfields")
			for i := 0; i < n; i++ {
				v.Fields = append(v.Fields, &ref.ObjField{Name: Name().Draw(t, "fname"), Value: Value(depth-1, isConst).Draw(t, "fval")})
			}
			return v
		}
	})
}

// BlockContent generates values that a block string can denote: the result of applying the
// specification's BlockStringValue to a raw body.
func BlockContent() *rapid.Generator[string] {
	return rapid.Custom(func(t *rapid.T) string {
		raw := rapid.SampledFrom([]string{"", "a", "a b", "  a", "a\n  b", "\n  a\n   b\n", "a\"b", "a\"\"b", "\"\"\"", "x\"\"\"y", "\\", "\\n", "a\\\"b", "é😀", "\ta\n\t b",
			"  first\n  second", "first\n  second", "\n\n  a\n\n  b\n\n", " ", "\n", "a\n\nb", "a  ", "#c", "$v", "\u007f", "\u00AD\u200B", "l1\n l2\n  l3"}).Draw(t, "blockraw")
		return ref.BlockStringValue(raw, false)
	}).Filter(func(v string) bool { return BlockLexeme(v, 0) != "" })
}

func Args(depth int, isConst bool) *rapid.Generator[[]*ref.Arg] {
	return rapid.Custom(func(t *rapid.T) []*ref.Arg {
		n := rapid.IntRange(0, 3).Draw(t, "nargs")
		if rapid.IntRange(0, 2).Draw(t, "noargs") == 0 {
			n = 0
		}
		var out []*ref.Arg
		for i := 0; i < n; i++ {
			out = append(out, &ref.Arg{Name: Name().Draw(t, "argname"), Value: Value(depth, isConst).Draw(t, "argval")})
		}
		return out
	})
}

func Directives(isConst bool) *rapid.Generator[[]*ref.Directive] {
	return rapid.Custom(func(t *rapid.T) []*ref.Directive {
		n := 0
		if rapid.IntRange(0, 2).Draw(t, "hasdirs") == 0 {
			n = rapid.IntRange(1, 3).Draw(t, "ndirs")
		}
		var out []*ref.Directive
		for i := 0; i < n; i++ {
			out = append(out, &ref.Directive{Name: Name().Draw(t, "dirname"), Args: Args(2, isConst).Draw(t, "dirargs")})
		}
		return out
	})
}

func VarDefs() *rapid.Generator[[]*ref.VarDef] {
	return rapid.Custom(func(t *rapid.T) []*ref.VarDef {
		n := 0
		if rapid.IntRange(0, 2).Draw(t, "hasvars") == 0 {
			n = rapid.IntRange(1, 3).Draw(t, "nvars")
		}
		var out []*ref.VarDef
		for i := 0; i < n; i++ {
			v := &ref.VarDef{Name: Name().Draw(t, "varname"), Type: TypeRef(2).Draw(t, "vartype")}
			if rapid.Bool().Draw(t, "hasdefault") {
				v.Default = Value(3, true).Draw(t, "default")
			}
			v.Directives = Directives(true).Draw(t, "vardirs")
			out = append(out, v)
		}
		return out
	})
}

func Selections(depth int) *rapid.Generator[[]*ref.Selection] {
	return rapid.Custom(func(t *rapid.T) []*ref.Selection {
		n := rapid.IntRange(1, 4).Draw(t, "nsel")
		var out []*ref.Selection
		for i := 0; i < n; i++ {
			k := rapid.IntRange(0, 5).Draw(t, "selkind")
			switch {
			case k <= 2:
				s := &ref.Selection{Kind: "Field", Name: Name().Draw(t, "fieldname")}
				if rapid.IntRange(0, 3).Draw(t, "hasalias") == 0 {
					s.Alias = nameNot(t, "alias", s.Name)
				}
				s.Args = Args(4, false).Draw(t, "args")
				s.Directives = Directives(false).Draw(t, "dirs")
				if depth > 0 && rapid.IntRange(0, 2).Draw(t, "hassub") == 0 {
					s.Sels = Selections(depth-1).Draw(t, "sub")
				}
				out = append(out, s)
			case k == 3 || depth <= 0:
				out = append(out, &ref.Selection{Kind: "Spread", Name: nameNot(t, "spreadname", "on"), Directives: Directives(false).Draw(t, "dirs")})
			default:
				s := &ref.Selection{Kind: "Inline"}
				if rapid.Bool().Draw(t, "hascond") {
					s.TypeCond = TypeName().Draw(t, "cond")
				}
				s.Directives = Directives(false).Draw(t, "dirs")
				s.Sels = Selections(depth-1).Draw(t, "sub")
				out = append(out, s)
			}
		}
		return out
	})
}

// QueryDoc generates an executable document tree.
func QueryDoc() *rapid.Generator[*ref.Doc] {
	return rapid.Custom(func(t *rapid.T) *ref.Doc {
		d := &ref.Doc{}
		n := rapid.IntRange(1, 4).Draw(t, "ndefs")
		for i := 0; i < n; i++ {
			switch rapid.IntRange(0, 3).Draw(t, "defkind") {
			case 0:
				d.Ops = append(d.Ops, &ref.Operation{Op: "query", Shorthand: true, Sels: Selections(3).Draw(t, "sels")})
				d.Order += "o"
			case 1, 2:
				op := &ref.Operation{Op: rapid.SampledFrom([]string{"query", "mutation", "subscription"}).Draw(t, "op")}
				if rapid.Bool().Draw(t, "named") {
					op.Name = Name().Draw(t, "opname")
				}
				op.Vars = VarDefs().Draw(t, "vars")
				op.Directives = Directives(false).Draw(t, "opdirs")
				op.Sels = Selections(3).Draw(t, "sels")
				d.Ops = append(d.Ops, op)
				d.Order += "o"
			default:
				f := &ref.Fragment{Name: nameNot(t, "fragname", "on"), TypeCond: TypeName().Draw(t, "cond")}
				if rapid.IntRange(0, 3).Draw(t, "fragvars") == 0 {
					f.Vars = VarDefs().Draw(t, "fvars")
				}
				f.Directives = Directives(false).Draw(t, "fdirs")
				f.Sels = Selections(3).Draw(t, "sels")
				d.Frags = append(d.Frags, f)
				d.Order += "f"
			}
		}
		return d
	})
}

// ---------------------------------------------------------------- type-system trees

func desc(t *rapid.T) string {
	if rapid.IntRange(0, 2).Draw(t, "hasdesc") != 0 {
		return ""
	}
	if rapid.Bool().Draw(t, "descblock") {
		return BlockContent().Draw(t, "descb")
	}
	return StringContent().Draw(t, "descs")
}

func argDefs(t *rapid.T) []*ref.ArgDef {
	n := 0
	if rapid.IntRange(0, 2).Draw(t, "hasargdefs") == 0 {
		n = rapid.IntRange(1, 3).Draw(t, "nargdefs")
	}
	var out []*ref.ArgDef
	for i := 0; i < n; i++ {
		a := &ref.ArgDef{Desc: desc(t), Name: Name().Draw(t, "argdefname"), Type: TypeRef(2).Draw(t, "argtype")}
		if rapid.IntRange(0, 2).Draw(t, "argdefault") == 0 {
			a.Default = Value(3, true).Draw(t, "argdefaultv")
		}
		a.Directives = Directives(true).Draw(t, "argdirs")
		out = append(out, a)
	}
	return out
}

func fieldDefs(t *rapid.T, input bool) []*ref.FieldDef {
	if rapid.IntRange(0, 5).Draw(t, "nofields") == 0 {
		return nil
	}
	n := rapid.IntRange(1, 4).Draw(t, "nfields")
	var out []*ref.FieldDef
	for i := 0; i < n; i++ {
		f := &ref.FieldDef{Desc: desc(t), Name: Name().Draw(t, "fdname"), Type: TypeRef(2).Draw(t, "ftype")}
		if input {
			if rapid.IntRange(0, 2).Draw(t, "fdefault") == 0 {
				f.Default = Value(3, true).Draw(t, "fdefaultv")
			}
		} else {
			f.Args = argDefs(t)
		}
		f.Directives = Directives(true).Draw(t, "fdirs")
		out = append(out, f)
	}
	return out
}

func nameList(t *rapid.T, label string, min int) []string {
	n := rapid.IntRange(min, 3).Draw(t, label+"n")
	var out []string
	for i := 0; i < n; i++ {
		out = append(out, TypeName().Draw(t, label))
	}
	return out
}

var kinds = []string{"SCALAR", "OBJECT", "INTERFACE", "UNION", "ENUM", "INPUT_OBJECT"}

// TypeDefTree generates a type definition or (ext) a type extension that extends something.
func typeDef(t *rapid.T, ext bool) *ref.TypeDef {
	d := &ref.TypeDef{Kind: rapid.SampledFrom(kinds).Draw(t, "kind"), Name: TypeName().Draw(t, "defname")}
	if !ext {
		d.Desc = desc(t)
	}
	d.Directives = Directives(true).Draw(t, "defdirs")
	switch d.Kind {
	case "OBJECT", "INTERFACE":
		if rapid.IntRange(0, 2).Draw(t, "hasimpl") == 0 {
			d.Interfaces = nameList(t, "impl", 1)
		}
		d.Fields = fieldDefs(t, false)
	case "UNION":
		if rapid.IntRange(0, 3).Draw(t, "nomembers") != 0 {
			d.Types = nameList(t, "member", 1)
		}
	case "ENUM":
		if rapid.IntRange(0, 4).Draw(t, "novalues") != 0 {
			n := rapid.IntRange(1, 3).Draw(t, "nvalues")
			for i := 0; i < n; i++ {
				d.EnumValues = append(d.EnumValues, &ref.EnumVal{Desc: desc(t), Name: nameNot(t, "evname", "true", "false", "null"), Directives: Directives(true).Draw(t, "evdirs")})
			}
		}
	case "INPUT_OBJECT":
		d.Fields = fieldDefs(t, true)
	}
	if ext {
		empty := len(d.Directives) == 0 && len(d.Interfaces) == 0 && len(d.Fields) == 0 && len(d.Types) == 0 && len(d.EnumValues) == 0
		if empty {
			d.Directives = []*ref.Directive{{Name: Name().Draw(t, "extdir")}}
		}
	}
	return d
}

var AllLocations = []string{"QUERY", "MUTATION", "SUBSCRIPTION", "FIELD", "FRAGMENT_DEFINITION", "FRAGMENT_SPREAD", "INLINE_FRAGMENT", "VARIABLE_DEFINITION",
	"SCHEMA", "SCALAR", "OBJECT", "FIELD_DEFINITION", "ARGUMENT_DEFINITION", "INTERFACE", "UNION", "ENUM", "ENUM_VALUE", "INPUT_OBJECT", "INPUT_FIELD_DEFINITION"}

func schemaDef(t *rapid.T, ext bool) *ref.SchemaDef {
	s := &ref.SchemaDef{}
	if !ext {
		s.Desc = desc(t)
	}
	s.Directives = Directives(true).Draw(t, "schemadirs")
	n := rapid.IntRange(1, 3).Draw(t, "nroots")
	if ext && len(s.Directives) > 0 && rapid.Bool().Draw(t, "noroots") {
		n = 0
	}
	for i := 0; i < n; i++ {
		s.Ops = append(s.Ops, &ref.OpType{Op: rapid.SampledFrom([]string{"query", "mutation", "subscription"}).Draw(t, "rootop"), Type: TypeName().Draw(t, "roottype")})
	}
	return s
}

// SchemaDocTree generates a type-system document tree. The top-level order of definitions is
// returned as a list of (list name, index) so that the renderer can interleave them.
type TopItem struct {
	List string // schema schemaext directive def ext
	Idx  int
}

func SchemaDocTree() *rapid.Generator[SchemaTree] {
	return rapid.Custom(func(t *rapid.T) SchemaTree {
		d := &ref.SchemaDoc{}
		var order []TopItem
		n := rapid.IntRange(1, 6).Draw(t, "ntop")
		for i := 0; i < n; i++ {
			switch rapid.IntRange(0, 9).Draw(t, "topkind") {
			case 0:
				d.Schemas = append(d.Schemas, schemaDef(t, false))
				order = append(order, TopItem{"schema", len(d.Schemas) - 1})
			case 1:
				d.SchemaExts = append(d.SchemaExts, schemaDef(t, true))
				order = append(order, TopItem{"schemaext", len(d.SchemaExts) - 1})
			case 2:
				dd := &ref.DirectiveDef{Desc: desc(t), Name: Name().Draw(t, "ddname"), Args: argDefs(t), Repeatable: rapid.Bool().Draw(t, "rep")}
				if rapid.IntRange(0, 3).Draw(t, "specified") == 0 {
					// a document may declare the directives of the specification itself (section 3.13)
					dd.Name = rapid.SampledFrom(SpecifiedDirectives).Draw(t, "specname")
				}
				nl := rapid.IntRange(1, 4).Draw(t, "nloc")
				for j := 0; j < nl; j++ {
					dd.Locations = append(dd.Locations, rapid.SampledFrom(AllLocations).Draw(t, "loc"))
				}
				d.Directives = append(d.Directives, dd)
				order = append(order, TopItem{"directive", len(d.Directives) - 1})
			case 3, 4, 5:
				d.Exts = append(d.Exts, typeDef(t, true))
				order = append(order, TopItem{"ext", len(d.Exts) - 1})
			default:
				d.Defs = append(d.Defs, typeDef(t, false))
				order = append(order, TopItem{"def", len(d.Defs) - 1})
			}
		}
		return SchemaTree{Doc: d, Order: order}
	})
}

type SchemaTree struct {
	Doc   *ref.SchemaDoc
	Order []TopItem
}

// JSONMemberNames are the member names of the library's JSON encoding of documents (the Go
// field names of the ast types). As GraphQL names they are ordinary identifiers; a decoder
// that inspects keys carelessly may confuse them with structure.
var JSONMemberNames = []string{"Alias", "TypeCondition", "Name", "Arguments", "Directives", "SelectionSet", "Definition", "ObjectDefinition", "Position", "Comment", "Kind", "Raw",
	"Children", "Value", "Operation", "VariableDefinitions", "Fragments", "Operations", "Variable", "Type", "DefaultValue", "NamedType", "Elem", "NonNull", "Start", "End", "Line", "Column", "Src"}

// RenameDoc replaces names of the document (each with probability 1/p) by names drawn from pool;
// string values too. Every slot that holds an arbitrary name is eligible.
func RenameDoc(t *rapid.T, d *ref.Doc, pool []string, p int) {
	pick := func(cur string) string {
		if cur == "" || rapid.IntRange(0, p-1).Draw(t, "rename") != 0 {
			return cur
		}
		return rapid.SampledFrom(pool).Draw(t, "newname")
	}
	var value func(v *ref.Value)
	value = func(v *ref.Value) {
		if v == nil {
			return
		}
		switch v.Kind {
		case "Variable", "Enum", "String":
			v.Raw = pick(v.Raw)
		}
		for _, i := range v.Items {
			value(i)
		}
		for _, f := range v.Fields {
			f.Name = pick(f.Name)
			value(f.Value)
		}
	}
	var typ func(ty *ref.Type)
	typ = func(ty *ref.Type) {
		for ty != nil {
			ty.Name = pick(ty.Name)
			ty = ty.Elem
		}
	}
	dirs := func(ds []*ref.Directive) {
		for _, x := range ds {
			x.Name = pick(x.Name)
			for _, a := range x.Args {
				a.Name = pick(a.Name)
				value(a.Value)
			}
		}
	}
	vars := func(vs []*ref.VarDef) {
		for _, v := range vs {
			v.Name = pick(v.Name)
			typ(v.Type)
			value(v.Default)
			dirs(v.Directives)
		}
	}
	var sels func(ss []*ref.Selection)
	sels = func(ss []*ref.Selection) {
		for _, s := range ss {
			s.Alias = pick(s.Alias)
			s.Name = pick(s.Name)
			s.TypeCond = pick(s.TypeCond)
			for _, a := range s.Args {
				a.Name = pick(a.Name)
				value(a.Value)
			}
			dirs(s.Directives)
			sels(s.Sels)
		}
	}
	for _, o := range d.Ops {
		o.Name = pick(o.Name)
		vars(o.Vars)
		dirs(o.Directives)
		sels(o.Sels)
	}
	for _, f := range d.Frags {
		f.Name = pick(f.Name)
		f.TypeCond = pick(f.TypeCond)
		vars(f.Vars)
		dirs(f.Directives)
		sels(f.Sels)
	}
}
