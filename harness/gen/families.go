package gen

import "strings"

// G11: size-parametrised adversarial families. n is the repetition count; the byte size is
// roughly proportional.
var FamilyNames = []string{"brackets", "brackets-unclosed", "braces-value", "selections", "selections-unclosed", "inline-fragments", "directives",
	"arguments", "comments", "tokens", "long-name", "long-string", "long-block", "type-brackets", "schema-type-brackets", "schema-values", "schema-fields",
	"spaces", "commas", "boms", "parens-unclosed", "strings-unterminated", "escapes", "enum-values", "union-members"}

func rep(s string, n int) string { return strings.Repeat(s, n) }

// Family returns the member of size n and whether it belongs to the type-system grammar.
func Family(kind string, n int) (text string, schema bool) {
	switch kind {
	case "brackets":
		return "{a(x:" + rep("[", n) + rep("]", n) + ")}", false
	case "brackets-unclosed":
		return "{a(x:" + rep("[", n), false
	case "braces-value":
		return "{a(x:" + rep("{a:", n) + "1" + rep("}", n) + ")}", false
	case "selections":
		return rep("{a", n) + rep("}", n), false
	case "selections-unclosed":
		return rep("{a", n), false
	case "inline-fragments":
		return "{" + rep("...{", n) + "a" + rep("}", n) + "}", false
	case "directives":
		return "{a" + rep("@d", n) + "}", false
	case "arguments":
		return "{a(" + rep("x:1,", n) + ")}", false
	case "comments":
		return rep("#c\n", n) + "{a}", false
	case "tokens":
		return rep("a ", n), false
	case "long-name":
		return "{" + rep("a", n) + "}", false
	case "long-string":
		return `{a(x:"` + rep("s", n) + `")}`, false
	case "long-block":
		return `{a(x:"""` + rep(" s\n", n) + `""")}`, false
	case "type-brackets":
		return "query($a:" + rep("[", n) + "T" + rep("]", n) + "){a}", false
	case "schema-type-brackets":
		return "type A{a:" + rep("[", n) + "Int" + rep("]", n) + "}", true
	case "schema-values":
		return "type A{a(x:Int=" + rep("[", n) + rep("]", n) + "):Int}", true
	case "schema-fields":
		return "type A{" + rep("a:Int ", n) + "}", true
	case "spaces":
		return rep(" ", n), false
	case "commas":
		return rep(",", n) + "{a}", false
	case "boms":
		return rep("\uFEFF", n) + "{a}", false
	case "parens-unclosed":
		return "query(" + rep("$a:[", n), false
	case "strings-unterminated":
		return `{a(x:"` + rep(`\"`, n), false
	case "escapes":
		return `{a(x:"` + rep(`é\n`, n) + `")}`, false
	case "enum-values":
		return "enum E{" + rep("A ", n) + "}", true
	case "union-members":
		return "union U=" + rep("A|", n) + "A", true
	}
	return "", false
}

// Wide and deep members of the grammars: each is derivable for every n >= 1, so a parser must
// accept it and build n items. They exist to reach size thresholds (nesting counters, token
// budgets, buffer sizes) that small generated trees never approach.
var WideQueryKinds = []string{"w-fields", "w-spreads", "w-inline", "w-inline-typed", "w-args", "w-list", "w-object", "w-vars", "w-ops", "w-frags", "w-directives", "w-aliases",
	"d-selections", "d-inline", "d-list", "d-object", "d-type", "w-mixed"}
var WideSchemaKinds = []string{"w-types", "w-fielddefs", "w-argdefs", "w-enum", "w-union", "w-implements", "w-inputfields", "w-directives-applied", "w-locations", "w-extends",
	"d-type", "d-default-list", "d-default-object", "w-descriptions", "w-schema-ops"}

func WideQuery(kind string, n int) string {
	switch kind {
	case "w-fields":
		return "{" + rep(" a", n) + " }"
	case "w-spreads":
		return "{" + rep(" ...F", n) + " } fragment F on T { a }"
	case "w-inline":
		return "{" + rep(" ... { a }", n) + " }"
	case "w-inline-typed":
		return "{" + rep(" ... on T @d { a }", n) + " }"
	case "w-args":
		return "{ a(" + rep("x: 1 ", n) + ") }"
	case "w-list":
		return "{ a(x: [" + rep("1 ", n) + "]) }"
	case "w-object":
		return "{ a(x: {" + rep("k: $v ", n) + "}) }"
	case "w-vars":
		return "query Q(" + rep("$v: [Int!] = [1] @d ", n) + ") { a }"
	case "w-ops":
		return rep("query Q { a } ", n)
	case "w-frags":
		return "{ a }" + rep(" fragment F on T { ...F }", n)
	case "w-directives":
		return "{ a" + rep(" @d(x: 1)", n) + " }"
	case "w-aliases":
		return "{" + rep(" k: a { b }", n) + " }"
	case "d-selections":
		return rep("{ a ", n) + rep("}", n)
	case "d-inline":
		return "{" + rep(" ... on T { ", n) + "a" + rep(" }", n) + " }"
	case "d-list":
		return "{ a(x: " + rep("[", n) + "1" + rep("]", n) + ") }"
	case "d-object":
		return "{ a(x: " + rep("{k: ", n) + "1" + rep("}", n) + ") }"
	case "d-type":
		return "query Q($v: " + rep("[", n) + "Int!" + rep("]!", n) + ") { a }"
	case "w-mixed":
		return "{" + rep(" a ...F ... on T { b } ... @d { c }", n) + " } fragment F on T { a }"
	}
	return ""
}

func WideSchema(kind string, n int) string {
	switch kind {
	case "w-types":
		return rep("type T { a: Int } ", n)
	case "w-fielddefs":
		return "type T {" + rep(" a: Int", n) + " }"
	case "w-argdefs":
		return "type T { a(" + rep("x: Int = 1 ", n) + "): Int }"
	case "w-enum":
		return "enum E {" + rep(" A", n) + " }"
	case "w-union":
		return "union U = A" + rep(" | A", n)
	case "w-implements":
		return "type T implements I" + rep(" & I", n) + " { a: Int }"
	case "w-inputfields":
		return "input I {" + rep(" a: Int = 1", n) + " }"
	case "w-directives-applied":
		return "type T" + rep(" @d(x: 1)", n) + " { a: Int }"
	case "w-locations":
		return "directive @d on FIELD" + rep(" | QUERY", n)
	case "w-extends":
		return "type T { a: Int }" + rep(" extend type T @d", n)
	case "d-type":
		return "type T { a: " + rep("[", n) + "Int" + rep("]", n) + " }"
	case "d-default-list":
		return "input I { a: Int = " + rep("[", n) + "1" + rep("]", n) + " }"
	case "d-default-object":
		return "input I { a: Int = " + rep("{k: ", n) + "1" + rep("}", n) + " }"
	case "w-descriptions":
		return rep(`"d" type T { "d" a("d" x: Int): Int } `, n)
	case "w-schema-ops":
		return "schema {" + rep(" query: Q", n) + " }"
	}
	return ""
}

// WideSizes straddle round thresholds a size guard is likely to use.
var WideSizes = []int{1, 2, 3, 15, 16, 17, 63, 64, 65, 100, 101, 127, 128, 129, 255, 256, 257, 499, 500, 501, 511, 512, 513, 999, 1000, 1001, 1023, 1024, 1025, 2047, 2048, 2049, 4095, 4096, 4097}
