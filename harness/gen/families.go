package gen

import "strings"

// G11: size-parametrised adversarial families. n is the repetition count; the byte size is
// roughly proportional.
var FamilyNames = []string{"brackets", "brackets-unclosed", "braces-value", "selections", "selections-unclosed", "inline-fragments", "directives",
	"arguments", "comments", "tokens", "long-name", "long-string", "long-block", "type-brackets", "schema-type-brackets", "schema-values", "schema-fields",
	"spaces", "commas", "boms", "parens-unclosed", "strings-unterminated", "escapes", "enum-values", "union-members"}

func rep(s string, n int) string { return strings.Repeat(s, n) }

// Family returns the member of size n and whether it belongs to the type-system grammar.
func Family(kind string, n int) (text string, schema bool) {
	switch kind {
	case "brackets":
		return "{a(x:" + rep("[", n) + rep("]", n) + ")}", false
	case "brackets-unclosed":
		return "{a(x:" + rep("[", n), false
	case "braces-value":
		return "{a(x:" + rep("{a:", n) + "1" + rep("}", n) + ")}", false
	case "selections":
		return rep("{a", n) + rep("}", n), false
	case "selections-unclosed":
		return rep("{a", n), false
	case "inline-fragments":
		return "{" + rep("...{", n) + "a" + rep("}", n) + "}", false
	case "directives":
		return "{a" + rep("@d", n) + "}", false
	case "arguments":
		return "{a(" + rep("x:1,", n) + ")}", false
	case "comments":
		return rep("#c\n", n) + "{a}", false
	case "tokens":
		return rep("a ", n), false
	case "long-name":
		return "{" + rep("a", n) + "}", false
	case "long-string":
		return `{a(x:"` + rep("s", n) + `")}`, false
	case "long-block":
		return `{a(x:"""` + rep(" s\n", n) + `""")}`, false
	case "type-brackets":
		return "query($a:" + rep("[", n) + "T" + rep("]", n) + "){a}", false
	case "schema-type-brackets":
		return "type A{a:" + rep("[", n) + "Int" + rep("]", n) + "}", true
	case "schema-values":
		return "type A{a(x:Int=" + rep("[", n) + rep("]", n) + "):Int}", true
	case "schema-fields":
		return "type A{" + rep("a:Int ", n) + "}", true
	case "spaces":
		return rep(" ", n), false
	case "commas":
		return rep(",", n) + "{a}", false
	case "boms":
		return rep("\uFEFF", n) + "{a}", false
	case "parens-unclosed":
		return "query(" + rep("$a:[", n), false
	case "strings-unterminated":
		return `{a(x:"` + rep(`\"`, n), false
	case "escapes":
		return `{a(x:"` + rep(`é\n`, n) + `")}`, false
	case "enum-values":
		return "enum E{" + rep("A ", n) + "}", true
	case "union-members":
		return "union U=" + rep("A|", n) + "A", true
	}
	return "", false
}
