package gen

import (
	"pgregory.net/rapid"

	"verif/harness/ref"
)

// G7: schema fault operators. Each mutates the tree in place so that exactly the tagged rule
// of ref.Schema.Validate (or of ref.Merge) is violated by construction.

type SchemaFault struct {
	Name     string
	Rule     string   // rule code the reference must report
	Involved []string // top-level definitions involved (type names, "@dir", "schema")
}

type faultOp struct {
	name string
	rule string
	f    func(t *rapid.T, st *SchemaTree) (involved []string, ok bool)
}

func pieces(st *SchemaTree, name string) []*ref.TypeDef {
	var out []*ref.TypeDef
	for _, d := range st.Doc.Defs {
		if d.Name == name {
			out = append(out, d)
		}
	}
	for _, d := range st.Doc.Exts {
		if d.Name == name {
			out = append(out, d)
		}
	}
	return out
}

func allPieces(st *SchemaTree) []*ref.TypeDef {
	return append(append([]*ref.TypeDef{}, st.Doc.Defs...), st.Doc.Exts...)
}

func defsOfKind(st *SchemaTree, kinds ...string) []*ref.TypeDef {
	var out []*ref.TypeDef
	for _, d := range st.Doc.Defs {
		for _, k := range kinds {
			if d.Kind == k {
				out = append(out, d)
			}
		}
	}
	return out
}

func piecesOfKind(st *SchemaTree, kinds ...string) []*ref.TypeDef {
	var out []*ref.TypeDef
	for _, d := range allPieces(st) {
		for _, k := range kinds {
			if d.Kind == k {
				out = append(out, d)
			}
		}
	}
	return out
}

func mergedOf(st *SchemaTree) *ref.Schema {
	s, _, _ := ref.Merge(st.Doc)
	return s
}

func pickDef(t *rapid.T, l []*ref.TypeDef) *ref.TypeDef {
	if len(l) == 0 {
		return nil
	}
	return rapid.SampledFrom(l).Draw(t, "target")
}

func withFields(l []*ref.TypeDef) []*ref.TypeDef {
	var out []*ref.TypeDef
	for _, d := range l {
		if len(d.Fields) > 0 {
			out = append(out, d)
		}
	}
	return out
}

func baseOf(t *ref.Type) *ref.Type {
	for t.Elem != nil {
		t = t.Elem
	}
	return t
}

func addTop(st *SchemaTree, list string, idx int) {
	st.Order = append(st.Order, TopItem{list, idx})
}

// implementer pieces: (implementer piece holding field f, interface name, interface field)
type implSite struct {
	piece *ref.TypeDef
	field *ref.FieldDef
	iface string
	req   *ref.FieldDef
}

func implSites(st *SchemaTree) []implSite {
	s := mergedOf(st)
	var out []implSite
	for _, p := range piecesOfKind(st, "OBJECT", "INTERFACE") {
		m := s.Types[p.Name]
		if m == nil {
			continue
		}
		for _, in := range m.Interfaces {
			it := s.Types[in]
			if it == nil {
				continue
			}
			for _, rf := range it.Fields {
				for _, f := range p.Fields {
					if f.Name == rf.Name {
						out = append(out, implSite{p, f, in, rf})
					}
				}
			}
		}
	}
	return out
}

var faultOps = []faultOp{
	{"duplicate-type", "duplicate-type", func(t *rapid.T, st *SchemaTree) ([]string, bool) {
		d := pickDef(t, st.Doc.Defs)
		if d == nil {
			return nil, false
		}
		c := *d
		if rapid.Bool().Draw(t, "otherkind") {
			c = ref.TypeDef{Kind: "SCALAR", Name: d.Name}
		}
		st.Doc.Defs = append(st.Doc.Defs, &c)
		addTop(st, "def", len(st.Doc.Defs)-1)
		return []string{d.Name}, true
	}},
	{"duplicate-directive", "duplicate-directive", func(t *rapid.T, st *SchemaTree) ([]string, bool) {
		var d *ref.DirectiveDef
		var own []*ref.DirectiveDef
		for _, x := range st.Doc.Directives {
			if !contains(SpecifiedDirectives, x.Name) { // (declaring a specified directive twice is not rejected: outside the domain)
				own = append(own, x)
			}
		}
		if len(own) > 0 {
			d = rapid.SampledFrom(own).Draw(t, "dir")
		} else {
			d = &ref.DirectiveDef{Name: "dx", Locations: []string{"FIELD"}}
			st.Doc.Directives = append(st.Doc.Directives, d)
			addTop(st, "directive", len(st.Doc.Directives)-1)
		}
		c := *d
		st.Doc.Directives = append(st.Doc.Directives, &c)
		addTop(st, "directive", len(st.Doc.Directives)-1)
		return []string{"@" + d.Name}, true
	}},
	{"duplicate-field-same-piece", "duplicate-field", func(t *rapid.T, st *SchemaTree) ([]string, bool) {
		d := pickDef(t, withFields(piecesOfKind(st, "OBJECT", "INTERFACE", "INPUT_OBJECT")))
		if d == nil {
			return nil, false
		}
		f := *rapid.SampledFrom(d.Fields).Draw(t, "field")
		d.Fields = append(d.Fields, &f)
		return []string{d.Name}, true
	}},
	{"duplicate-field-across-extension", "duplicate-field", func(t *rapid.T, st *SchemaTree) ([]string, bool) {
		d := pickDef(t, withFields(defsOfKind(st, "OBJECT", "INTERFACE", "INPUT_OBJECT")))
		if d == nil {
			return nil, false
		}
		f := *rapid.SampledFrom(d.Fields).Draw(t, "field")
		st.Doc.Exts = append(st.Doc.Exts, &ref.TypeDef{Kind: d.Kind, Name: d.Name, Fields: []*ref.FieldDef{&f}})
		addTop(st, "ext", len(st.Doc.Exts)-1)
		return []string{d.Name}, true
	}},
	{"undefined-field-type", "undefined-type", func(t *rapid.T, st *SchemaTree) ([]string, bool) {
		d := pickDef(t, withFields(piecesOfKind(st, "OBJECT", "INTERFACE", "INPUT_OBJECT")))
		if d == nil {
			return nil, false
		}
		f := rapid.SampledFrom(d.Fields).Draw(t, "field")
		// keep implementers consistent: only touch fields no interface requires and no implementer copies
		f.Type = cloneType(f.Type)
		baseOf(f.Type).Name = "Missing"
		return []string{d.Name, "Missing"}, true
	}},
	{"undefined-argument-type", "undefined-type", func(t *rapid.T, st *SchemaTree) ([]string, bool) {
		for _, d := range piecesOfKind(st, "OBJECT", "INTERFACE") {
			for _, f := range d.Fields {
				if len(f.Args) > 0 {
					a := f.Args[0]
					a.Type = cloneType(a.Type)
					baseOf(a.Type).Name = "Missing"
					a.Default = nil
					return []string{d.Name, "Missing"}, true
				}
			}
		}
		return nil, false
	}},
	{"undefined-directive-argument-type", "undefined-type", func(t *rapid.T, st *SchemaTree) ([]string, bool) {
		for _, d := range st.Doc.Directives {
			if len(d.Args) > 0 {
				d.Args[0].Type = wrapFaulty(t, "Missing")
				d.Args[0].Default = nil
				return []string{"@" + d.Name, "Missing"}, true
			}
		}
		return nil, false
	}},
	{"undefined-interface", "undefined-type", func(t *rapid.T, st *SchemaTree) ([]string, bool) {
		d := pickDef(t, piecesOfKind(st, "OBJECT", "INTERFACE"))
		if d == nil {
			return nil, false
		}
		d.Interfaces = append(d.Interfaces, "Missing")
		return []string{d.Name, "Missing"}, true
	}},
	{"implements-non-interface", "implements-non-interface", func(t *rapid.T, st *SchemaTree) ([]string, bool) {
		d := pickDef(t, piecesOfKind(st, "OBJECT", "INTERFACE"))
		o := pickDef(t, defsOfKind(st, "OBJECT", "SCALAR", "ENUM", "UNION", "INPUT_OBJECT"))
		if d == nil || o == nil || o.Name == d.Name {
			return nil, false
		}
		d.Interfaces = append(d.Interfaces, o.Name)
		return []string{d.Name, o.Name}, true
	}},
	{"undefined-union-member", "undefined-type", func(t *rapid.T, st *SchemaTree) ([]string, bool) {
		d := pickDef(t, piecesOfKind(st, "UNION"))
		if d == nil {
			return nil, false
		}
		d.Types = append(d.Types, "Missing")
		return []string{d.Name, "Missing"}, true
	}},
	{"non-object-union-member", "union-member-kind", func(t *rapid.T, st *SchemaTree) ([]string, bool) {
		d := pickDef(t, piecesOfKind(st, "UNION"))
		o := pickDef(t, defsOfKind(st, "INTERFACE", "SCALAR", "ENUM", "UNION", "INPUT_OBJECT"))
		if d == nil || o == nil {
			return nil, false
		}
		d.Types = append(d.Types, o.Name)
		return []string{d.Name, o.Name}, true
	}},
	{"undefined-directive", "undefined-directive", func(t *rapid.T, st *SchemaTree) ([]string, bool) {
		dir := &ref.Directive{Name: "nodir"}
		switch rapid.IntRange(0, 5).Draw(t, "where") {
		case 0:
			d := pickDef(t, allPieces(st))
			d.Directives = append(d.Directives, dir)
			return []string{d.Name, "@nodir"}, true
		case 1:
			if d := pickDef(t, withFields(allPieces(st))); d != nil {
				f := rapid.SampledFrom(d.Fields).Draw(t, "field")
				f.Directives = append(f.Directives, dir)
				return []string{d.Name, "@nodir"}, true
			}
		case 2:
			for _, d := range piecesOfKind(st, "OBJECT", "INTERFACE") {
				for _, f := range d.Fields {
					if len(f.Args) > 0 {
						f.Args[0].Directives = append(f.Args[0].Directives, dir)
						return []string{d.Name, "@nodir"}, true
					}
				}
			}
		case 3:
			for _, d := range piecesOfKind(st, "ENUM") {
				if len(d.EnumValues) > 0 {
					d.EnumValues[0].Directives = append(d.EnumValues[0].Directives, dir)
					return []string{d.Name, "@nodir"}, true
				}
			}
		case 4:
			for _, d := range st.Doc.Directives {
				if len(d.Args) > 0 {
					d.Args[0].Directives = append(d.Args[0].Directives, dir)
					return []string{"@" + d.Name, "@nodir"}, true
				}
			}
		default:
			st.Doc.SchemaExts = append(st.Doc.SchemaExts, &ref.SchemaDef{Directives: []*ref.Directive{dir}})
			addTop(st, "schemaext", len(st.Doc.SchemaExts)-1)
			return []string{"schema", "@nodir"}, true
		}
		return nil, false
	}},
	{"undefined-root-type", "undefined-root-type", func(t *rapid.T, st *SchemaTree) ([]string, bool) {
		op := rapid.SampledFrom([]string{"query", "mutation", "subscription"}).Draw(t, "op")
		if len(st.Doc.Schemas) > 0 {
			sd := st.Doc.Schemas[0]
			for _, o := range sd.Ops {
				if o.Op == op {
					o.Type = "Missing"
					return []string{"schema", "Missing"}, true
				}
			}
			for _, e := range st.Doc.SchemaExts {
				for _, o := range e.Ops {
					if o.Op == op {
						o.Type = "Missing"
						return []string{"schema", "Missing"}, true
					}
				}
			}
			sd.Ops = append(sd.Ops, &ref.OpType{Op: op, Type: "Missing"})
			return []string{"schema", "Missing"}, true
		}
		if op == "query" {
			return nil, false
		}
		if s := mergedOf(st); (op == "mutation" && s.Mutation != "") || (op == "subscription" && s.Subscription != "") {
			return nil, false
		}
		st.Doc.SchemaExts = append(st.Doc.SchemaExts, &ref.SchemaDef{Ops: []*ref.OpType{{Op: op, Type: "Missing"}}})
		addTop(st, "schemaext", len(st.Doc.SchemaExts)-1)
		return []string{"schema", "Missing"}, true
	}},
	{"input-object-in-output-position", "input-type-in-output-position", func(t *rapid.T, st *SchemaTree) ([]string, bool) {
		in := pickDef(t, defsOfKind(st, "INPUT_OBJECT"))
		if in == nil {
			return nil, false
		}
		// add a fresh field so that interface contracts stay intact
		d := pickDef(t, piecesOfKind(st, "OBJECT"))
		if d == nil {
			return nil, false
		}
		d.Fields = append(d.Fields, &ref.FieldDef{Name: "faulty", Type: wrapFaulty(t, in.Name)})
		return []string{d.Name, in.Name}, true
	}},
	{"output-type-in-argument", "output-type-in-input-position", func(t *rapid.T, st *SchemaTree) ([]string, bool) {
		o := pickDef(t, defsOfKind(st, "OBJECT", "INTERFACE", "UNION"))
		d := pickDef(t, piecesOfKind(st, "OBJECT"))
		if o == nil || d == nil {
			return nil, false
		}
		d.Fields = append(d.Fields, &ref.FieldDef{Name: "faulty", Type: &ref.Type{Name: "Int"}, Args: []*ref.ArgDef{{Name: "x", Type: wrapFaulty(t, o.Name)}}})
		return []string{d.Name, o.Name}, true
	}},
	{"output-type-in-input-field", "output-type-in-input-position", func(t *rapid.T, st *SchemaTree) ([]string, bool) {
		o := pickDef(t, defsOfKind(st, "OBJECT", "INTERFACE", "UNION"))
		d := pickDef(t, piecesOfKind(st, "INPUT_OBJECT"))
		if o == nil || d == nil {
			return nil, false
		}
		d.Fields = append(d.Fields, &ref.FieldDef{Name: "faulty", Type: wrapFaulty(t, o.Name)})
		return []string{d.Name, o.Name}, true
	}},
	{"output-type-in-directive-argument", "output-type-in-input-position", func(t *rapid.T, st *SchemaTree) ([]string, bool) {
		o := pickDef(t, defsOfKind(st, "OBJECT", "INTERFACE", "UNION"))
		if o == nil {
			return nil, false
		}
		st.Doc.Directives = append(st.Doc.Directives, &ref.DirectiveDef{Name: "dfaulty", Locations: []string{"FIELD"}, Args: []*ref.ArgDef{{Name: "x", Type: wrapFaulty(t, o.Name)}}})
		addTop(st, "directive", len(st.Doc.Directives)-1)
		return []string{"@dfaulty", o.Name}, true
	}},
	{"interface-field-missing", "interface-field-missing", func(t *rapid.T, st *SchemaTree) ([]string, bool) {
		sites := implSites(st)
		if len(sites) == 0 {
			return nil, false
		}
		s := sites[rapid.IntRange(0, len(sites)-1).Draw(t, "site")]
		// removing the field must not empty the type (that would be a second fault)
		total := 0
		for _, p := range pieces(st, s.piece.Name) {
			total += len(p.Fields)
		}
		if total < 2 {
			return nil, false
		}
		var keep []*ref.FieldDef
		for _, f := range s.piece.Fields {
			if f != s.field {
				keep = append(keep, f)
			}
		}
		s.piece.Fields = keep
		return []string{s.piece.Name, s.iface}, true
	}},
	{"interface-field-type", "interface-field-type", func(t *rapid.T, st *SchemaTree) ([]string, bool) {
		sites := implSites(st)
		if len(sites) == 0 {
			return nil, false
		}
		s := sites[rapid.IntRange(0, len(sites)-1).Draw(t, "site")]
		req := s.req.Type
		var nt *ref.Type
		switch rapid.IntRange(0, 4).Draw(t, "how") {
		case 4: // nullable at an inner level (list item, inner list) where the interface says non-null
			nt = cloneType(req)
			var cands []*ref.Type
			for x := nt.Elem; x != nil; x = x.Elem {
				if x.NonNull {
					cands = append(cands, x)
				}
			}
			if len(cands) == 0 {
				return nil, false
			}
			cands[rapid.IntRange(0, len(cands)-1).Draw(t, "level")].NonNull = false
		case 0: // other scalar
			nt = cloneType(req)
			b := baseOf(nt)
			if b.Name == "Boolean" {
				b.Name = "Int"
			} else {
				b.Name = "Boolean"
			}
		case 1: // nullable for non-null
			if !req.NonNull {
				return nil, false
			}
			nt = cloneType(req)
			nt.NonNull = false
		case 2: // list-ness
			if req.Elem != nil {
				nt = cloneType(req.Elem)
			} else {
				nt = &ref.Type{Elem: cloneType(req)}
			}
		default: // supertype / unrelated object: the query root is never a subtype of anything but itself
			nt = cloneType(req)
			b := baseOf(nt)
			sch := mergedOf(st)
			if !sch.IsComposite(b.Name) {
				return nil, false
			}
			cand := ""
			for _, n := range sch.TypeOrder {
				if sch.IsComposite(n) && !sch.BuiltIn[n] && !sch.CovariantExported(&ref.Type{Name: b.Name}, &ref.Type{Name: n}) {
					cand = n
				}
			}
			if cand == "" {
				return nil, false
			}
			b.Name = cand
		}
		s.field.Type = nt
		return []string{s.piece.Name, s.iface}, true
	}},
	{"interface-argument-missing", "interface-argument-missing", func(t *rapid.T, st *SchemaTree) ([]string, bool) {
		for _, s := range implSites(st) {
			if len(s.req.Args) > 0 && len(s.field.Args) > 0 {
				name := s.req.Args[0].Name
				var keep []*ref.ArgDef
				for _, a := range s.field.Args {
					if a.Name != name {
						keep = append(keep, a)
					}
				}
				s.field.Args = keep
				return []string{s.piece.Name, s.iface}, true
			}
		}
		return nil, false
	}},
	{"interface-argument-type", "interface-argument-type", func(t *rapid.T, st *SchemaTree) ([]string, bool) {
		for _, s := range implSites(st) {
			for _, ra := range s.req.Args {
				for _, a := range s.field.Args {
					if a.Name != ra.Name {
						continue
					}
					nt := cloneType(ra.Type)
					switch rapid.IntRange(0, 3).Draw(t, "how") {
					case 0:
						b := baseOf(nt)
						if b.Name == "Boolean" {
							b.Name = "Int"
						} else {
							b.Name = "Boolean"
						}
					case 1:
						if nt.Elem != nil {
							nt = nt.Elem
						} else {
							nt = &ref.Type{Elem: nt}
						}
					case 2: // interface says non-null, implementer nullable (or the reverse)
						nt.NonNull = !nt.NonNull
					default:
						if nt.Elem != nil {
							nt.Elem.NonNull = !nt.Elem.NonNull
						} else {
							nt.NonNull = !nt.NonNull
						}
					}
					a.Type = nt
					a.Default = nil
					return []string{s.piece.Name, s.iface}, true
				}
			}
		}
		return nil, false
	}},
	{"interface-extra-required-argument", "interface-extra-required-argument", func(t *rapid.T, st *SchemaTree) ([]string, bool) {
		sites := implSites(st)
		if len(sites) == 0 {
			return nil, false
		}
		s := sites[rapid.IntRange(0, len(sites)-1).Draw(t, "site")]
		s.field.Args = append(s.field.Args, &ref.ArgDef{Name: "required_extra", Type: &ref.Type{Name: "Int", NonNull: true}})
		return []string{s.piece.Name, s.iface}, true
	}},
	{"interface-transitive-missing", "interface-transitive-missing", func(t *rapid.T, st *SchemaTree) ([]string, bool) {
		sch := mergedOf(st)
		for _, p := range piecesOfKind(st, "OBJECT", "INTERFACE") {
			for _, in := range p.Interfaces {
				it := sch.Types[in]
				if it == nil || len(it.Interfaces) == 0 {
					continue
				}
				parent := it.Interfaces[0]
				// remove parent from every piece of p.Name
				removed := false
				for _, q := range pieces(st, p.Name) {
					var keep []string
					for _, x := range q.Interfaces {
						if x == parent {
							removed = true
						} else {
							keep = append(keep, x)
						}
					}
					q.Interfaces = keep
				}
				if removed {
					return []string{p.Name, in, parent}, true
				}
			}
		}
		return nil, false
	}},
	{"empty-type", "empty-type", func(t *rapid.T, st *SchemaTree) ([]string, bool) {
		// a fresh empty type keeps every other rule intact
		kind := rapid.SampledFrom([]string{"OBJECT", "INTERFACE", "INPUT_OBJECT", "ENUM"}).Draw(t, "kind")
		st.Doc.Defs = append(st.Doc.Defs, &ref.TypeDef{Kind: kind, Name: "Empty"})
		addTop(st, "def", len(st.Doc.Defs)-1)
		return []string{"Empty"}, true
	}},
	{"reserved-name", "reserved-name", func(t *rapid.T, st *SchemaTree) ([]string, bool) {
		switch rapid.IntRange(0, 4).Draw(t, "what") {
		case 0:
			st.Doc.Defs = append(st.Doc.Defs, &ref.TypeDef{Kind: "SCALAR", Name: "__Reserved"})
			addTop(st, "def", len(st.Doc.Defs)-1)
			return []string{"__Reserved"}, true
		case 1:
			d := pickDef(t, piecesOfKind(st, "OBJECT"))
			d.Fields = append(d.Fields, &ref.FieldDef{Name: "__reserved", Type: &ref.Type{Name: "Int"}})
			return []string{d.Name}, true
		case 2:
			d := pickDef(t, piecesOfKind(st, "OBJECT"))
			d.Fields = append(d.Fields, &ref.FieldDef{Name: "withreserved", Type: &ref.Type{Name: "Int"}, Args: []*ref.ArgDef{{Name: "__x", Type: &ref.Type{Name: "Int"}}}})
			return []string{d.Name}, true
		case 3:
			d := pickDef(t, piecesOfKind(st, "INPUT_OBJECT"))
			if d == nil {
				return nil, false
			}
			d.Fields = append(d.Fields, &ref.FieldDef{Name: "__reserved", Type: &ref.Type{Name: "Int"}})
			return []string{d.Name}, true
		default:
			st.Doc.Directives = append(st.Doc.Directives, &ref.DirectiveDef{Name: "__reserved", Locations: []string{"FIELD"}})
			addTop(st, "directive", len(st.Doc.Directives)-1)
			return []string{"@__reserved"}, true
		}
	}},
	{"directive-location", "directive-location", func(t *rapid.T, st *SchemaTree) ([]string, bool) {
		// a directive declared for executable use only, applied at a type-system location
		nDirs, nOrder := len(st.Doc.Directives), len(st.Order)
		st.Doc.Directives = append(st.Doc.Directives, &ref.DirectiveDef{Name: "execonly", Locations: []string{"FIELD", "QUERY"}})
		addTop(st, "directive", len(st.Doc.Directives)-1)
		dir := &ref.Directive{Name: "execonly"}
		switch rapid.IntRange(0, 13).Draw(t, "where") {
		case 11, 12, 13:
			// two extensions of one type (or of the schema): one with a well placed directive, one with
			// the misplaced one; which of them is merged first depends on the order of the sources
			st.Doc.Directives = append(st.Doc.Directives, &ref.DirectiveDef{Name: "anywhere", Repeatable: true, Locations: []string{"SCHEMA", "SCALAR", "OBJECT", "INTERFACE", "UNION", "ENUM", "INPUT_OBJECT"}})
			addTop(st, "directive", len(st.Doc.Directives)-1)
			good := &ref.Directive{Name: "anywhere"}
			first, second := good, dir
			if rapid.Bool().Draw(t, "badfirst") {
				first, second = dir, good
			}
			if rapid.IntRange(0, 4).Draw(t, "onschema") == 0 {
				for _, d := range []*ref.Directive{first, second} {
					st.Doc.SchemaExts = append(st.Doc.SchemaExts, &ref.SchemaDef{Directives: []*ref.Directive{d}})
					addTop(st, "schemaext", len(st.Doc.SchemaExts)-1)
				}
				return []string{"schema", "@execonly"}, true
			}
			kind := []string{"SCALAR", "OBJECT", "INTERFACE", "UNION", "ENUM", "INPUT_OBJECT"}[rapid.IntRange(0, 5).Draw(t, "kind")]
			var bases []*ref.TypeDef
			for _, d := range st.Doc.Defs {
				if d.Kind == kind {
					bases = append(bases, d)
				}
			}
			if d := pickDef(t, bases); d != nil {
				for _, x := range []*ref.Directive{first, second} {
					st.Doc.Exts = append(st.Doc.Exts, &ref.TypeDef{Kind: d.Kind, Name: d.Name, Directives: []*ref.Directive{x}})
					addTop(st, "ext", len(st.Doc.Exts)-1)
				}
				return []string{d.Name, "@execonly"}, true
			}
		case 0:
			st.Doc.SchemaExts = append(st.Doc.SchemaExts, &ref.SchemaDef{Directives: []*ref.Directive{dir}})
			addTop(st, "schemaext", len(st.Doc.SchemaExts)-1)
			return []string{"schema", "@execonly"}, true
		case 1, 2, 3, 4, 5, 6:
			kind := []string{"SCALAR", "OBJECT", "INTERFACE", "UNION", "ENUM", "INPUT_OBJECT"}[rapid.IntRange(0, 5).Draw(t, "kind")]
			if d := pickDef(t, piecesOfKind(st, kind)); d != nil {
				d.Directives = append(d.Directives, dir)
				return []string{d.Name, "@execonly"}, true
			}
		case 7:
			if d := pickDef(t, withFields(piecesOfKind(st, "OBJECT", "INTERFACE"))); d != nil {
				d.Fields[0].Directives = append(d.Fields[0].Directives, dir)
				return []string{d.Name, "@execonly"}, true
			}
		case 8:
			if d := pickDef(t, withFields(piecesOfKind(st, "INPUT_OBJECT"))); d != nil {
				d.Fields[0].Directives = append(d.Fields[0].Directives, dir)
				return []string{d.Name, "@execonly"}, true
			}
		case 9:
			for _, d := range piecesOfKind(st, "ENUM") {
				if len(d.EnumValues) > 0 {
					d.EnumValues[0].Directives = append(d.EnumValues[0].Directives, dir)
					return []string{d.Name, "@execonly"}, true
				}
			}
		default:
			for _, d := range piecesOfKind(st, "OBJECT", "INTERFACE") {
				for _, f := range d.Fields {
					if len(f.Args) > 0 {
						f.Args[0].Directives = append(f.Args[0].Directives, dir)
						return []string{d.Name, "@execonly"}, true
					}
				}
			}
		}
		// no target: take the definitions added above back
		st.Doc.Directives = st.Doc.Directives[:nDirs]
		st.Order = st.Order[:nOrder]
		return nil, false
	}},
	{"directive-required-argument", "directive-required-argument", func(t *rapid.T, st *SchemaTree) ([]string, bool) {
		st.Doc.Directives = append(st.Doc.Directives, &ref.DirectiveDef{Name: "needsarg", Locations: []string{"OBJECT", "SCALAR", "ENUM", "INTERFACE", "UNION", "INPUT_OBJECT"}, Args: []*ref.ArgDef{{Name: "x", Type: &ref.Type{Name: "Int", NonNull: true}}}})
		addTop(st, "directive", len(st.Doc.Directives)-1)
		d := pickDef(t, allPieces(st))
		dir := &ref.Directive{Name: "needsarg"}
		if rapid.Bool().Draw(t, "null") {
			dir.Args = []*ref.Arg{{Name: "x", Value: &ref.Value{Kind: "Null", Raw: "null"}}}
		}
		d.Directives = append(d.Directives, dir)
		return []string{d.Name, "@needsarg"}, true
	}},
	{"unknown-directive-argument", "unknown-directive-argument", func(t *rapid.T, st *SchemaTree) ([]string, bool) {
		d := pickDef(t, withFields(piecesOfKind(st, "OBJECT", "INTERFACE")))
		if d == nil {
			return nil, false
		}
		d.Fields[0].Directives = append(d.Fields[0].Directives, &ref.Directive{Name: "deprecated", Args: []*ref.Arg{{Name: "nosucharg", Value: &ref.Value{Kind: "Int", Raw: "1"}}}})
		return []string{d.Name, "@deprecated"}, true
	}},
	{"directive-self-reference", "directive-self-reference", func(t *rapid.T, st *SchemaTree) ([]string, bool) {
		st.Doc.Directives = append(st.Doc.Directives, &ref.DirectiveDef{Name: "selfref", Locations: []string{"ARGUMENT_DEFINITION"}, Args: []*ref.ArgDef{{Name: "x", Type: &ref.Type{Name: "Int"}, Directives: []*ref.Directive{{Name: "selfref"}}}}})
		addTop(st, "directive", len(st.Doc.Directives)-1)
		return []string{"@selfref"}, true
	}},
	{"extension-kind-mismatch", "extension-kind-mismatch", func(t *rapid.T, st *SchemaTree) ([]string, bool) {
		d := pickDef(t, defsOfKind(st, "OBJECT", "INTERFACE", "ENUM", "INPUT_OBJECT", "UNION"))
		if d == nil {
			return nil, false
		}
		st.Doc.Exts = append(st.Doc.Exts, &ref.TypeDef{Kind: "SCALAR", Name: d.Name, Directives: []*ref.Directive{{Name: "specifiedBy", Args: []*ref.Arg{{Name: "url", Value: &ref.Value{Kind: "String", Raw: "u"}}}}}})
		addTop(st, "ext", len(st.Doc.Exts)-1)
		return []string{d.Name}, true
	}},
	{"multiple-schema-definitions", "multiple-schema-definitions", func(t *rapid.T, st *SchemaTree) ([]string, bool) {
		if len(st.Doc.Schemas) == 0 {
			return nil, false
		}
		c := *st.Doc.Schemas[0]
		st.Doc.Schemas = append(st.Doc.Schemas, &c)
		addTop(st, "schema", len(st.Doc.Schemas)-1)
		return []string{"schema"}, true
	}},
	{"enum-value-reserved-word", "enum-value-reserved-word", func(t *rapid.T, st *SchemaTree) ([]string, bool) {
		d := pickDef(t, piecesOfKind(st, "ENUM"))
		if d == nil {
			return nil, false
		}
		d.EnumValues = append(d.EnumValues, &ref.EnumVal{Name: rapid.SampledFrom([]string{"true", "false", "null"}).Draw(t, "word")})
		return []string{d.Name}, true
	}},
}

// FaultNames lists the catalogue.
func FaultNames() []string {
	var out []string
	for _, f := range faultOps {
		out = append(out, f.name)
	}
	return out
}

// ApplySchemaFault injects the fault with index idx (mod catalogue size); if it has no
// target in this schema the following ones are tried.
func ApplySchemaFault(t *rapid.T, st *SchemaTree, idx int) (SchemaFault, bool) {
	for k := 0; k < len(faultOps); k++ {
		op := faultOps[(idx+k)%len(faultOps)]
		before := JoinPlain(SchemaLexemes(*st, Canon))
		if inv, ok := op.f(t, st); ok {
			pruneEmptyExtensions(st)
			return SchemaFault{Name: op.name, Rule: op.rule, Involved: inv}, true
		}
		if JoinPlain(SchemaLexemes(*st, Canon)) != before {
			panic("harness: schema fault operator " + op.name + " changed the schema although it reports no target")
		}
	}
	return SchemaFault{}, false
}

// NumSchemaFaults is the size of the catalogue.
func NumSchemaFaults() int { return len(faultOps) }

// pruneEmptyExtensions drops type extensions a fault left without any content (`extend type T`
// alone is not derivable from the grammar) and renumbers the order list.
func pruneEmptyExtensions(st *SchemaTree) {
	remap := make([]int, len(st.Doc.Exts))
	var keep []*ref.TypeDef
	for i, e := range st.Doc.Exts {
		if len(e.Fields)+len(e.EnumValues)+len(e.Types)+len(e.Directives)+len(e.Interfaces) == 0 {
			remap[i] = -1
			continue
		}
		remap[i] = len(keep)
		keep = append(keep, e)
	}
	if len(keep) == len(st.Doc.Exts) {
		return
	}
	st.Doc.Exts = keep
	var order []TopItem
	for _, it := range st.Order {
		if it.List == "ext" {
			if remap[it.Idx] < 0 {
				continue
			}
			it.Idx = remap[it.Idx]
		}
		order = append(order, it)
	}
	st.Order = order
}

// wrapFaulty: a reference to a type of the wrong kind (or to no type) is just as wrong behind
// list and non-null wrappers: T, T!, [T], [T!]!, [[T]], [[T!]]!
func wrapFaulty(t *rapid.T, name string) *ref.Type {
	n := &ref.Type{Name: name}
	switch rapid.IntRange(0, 5).Draw(t, "faultywrap") {
	case 1:
		n.NonNull = true
		return n
	case 2:
		return &ref.Type{Elem: n}
	case 3:
		n.NonNull = true
		return &ref.Type{Elem: n, NonNull: true}
	case 4:
		return &ref.Type{Elem: &ref.Type{Elem: n}}
	case 5:
		n.NonNull = true
		return &ref.Type{Elem: &ref.Type{Elem: n}, NonNull: true}
	}
	return n
}
