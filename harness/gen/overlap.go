package gen

import (
	"fmt"
	"strings"

	"pgregory.net/rapid"

	"verif/harness/ref"
)

// Dense-overlap documents: few names, many collisions. They target the field-merging rule,
// its fragment-pair caches and the recursion guards of every rule that follows fragments:
// the same response names recur at every level, fragments spread each other (also
// cyclically, also through fields), and the same fragments meet both under mutually
// exclusive object parents and under a common parent.

const OverlapSchema = `
interface Pet { name: String nick: String friend: Pet owner: Person n: Int }
type Dog implements Pet { name: String nick: String friend: Pet owner: Person n: Int bark: Int kind: String }
type Cat implements Pet { name: String nick: String friend: Pet owner: Person n: Int meow: Int kind: Int }
type Person { name: String nick: String pet: Pet pets: [Pet] i(x: In, l: [[Int]]): Int }
union CatOrDog = Cat | Dog
input In { a: Int l: [In] }
type Query { pet: Pet cd: CatOrDog person: Person q: Query i(x: In, l: [[Int]]): Int name: String }
schema { query: Query mutation: Query subscription: Query }
`

var overlapTypes = []string{"Pet", "Dog", "Cat", "Person", "CatOrDog", "Query"}
var overlapLeaves = []string{"name", "nick", "n", "kind", "bark", "meow", "__typename"}
var overlapComposites = []string{"friend", "owner", "pet", "pets", "cd", "q", "person"}
var overlapLeafAliases = []string{"", "", "x", "label", "kind"}
var overlapCompositeAliases = []string{"", "", "o", "f"}

// OverlapDocument draws a document over OverlapSchema. acyclic=true forbids spreads that
// could form a fragment cycle (fragments then only spread higher-numbered fragments).
func OverlapDocument(t *rapid.T, acyclic bool) *ref.Doc {
	switch rapid.IntRange(0, 7).Draw(t, "pattern") {
	case 0:
		return twinRecursion(t)
	case 1:
		return exclusiveThenCommon(t, acyclic)
	case 2:
		if !acyclic {
			return exclusiveCycle(t)
		}
	}
	nfrag := rapid.IntRange(1, 4).Draw(t, "nfrag")
	names := make([]string, nfrag)
	for i := range names {
		names[i] = fmt.Sprintf("F%d", i)
	}
	args := func() []*ref.Arg {
		lits := []*ref.Value{
			{Kind: "Int", Raw: "1"}, {Kind: "Int", Raw: "2"}, {Kind: "String", Raw: "s"}, {Kind: "Variable", Raw: "v"},
			{Kind: "List", Items: []*ref.Value{{Kind: "List", Items: []*ref.Value{{Kind: "Int", Raw: "1"}}}}},
			{Kind: "List", Items: []*ref.Value{{Kind: "List", Items: []*ref.Value{{Kind: "Int", Raw: "2"}}}}},
			{Kind: "Object", Fields: []*ref.ObjField{{Name: "a", Value: &ref.Value{Kind: "Int", Raw: "1"}}}},
			{Kind: "Object", Fields: []*ref.ObjField{{Name: "a", Value: &ref.Value{Kind: "Int", Raw: "2"}}}},
			{Kind: "Object", Fields: []*ref.ObjField{{Name: "zz", Value: &ref.Value{Kind: "Int", Raw: "1"}}}},
		}
		var out []*ref.Arg
		switch rapid.IntRange(0, 3).Draw(t, "argshape") {
		case 0:
			return nil
		case 1:
			out = []*ref.Arg{{Name: "x", Value: rapid.SampledFrom(lits).Draw(t, "ax")}}
		case 2: // deliberately not in alphabetical order
			out = []*ref.Arg{{Name: "x", Value: rapid.SampledFrom(lits).Draw(t, "ax")}, {Name: "l", Value: rapid.SampledFrom(lits).Draw(t, "al")}}
		default:
			out = []*ref.Arg{{Name: "zz", Value: rapid.SampledFrom(lits).Draw(t, "az")}, {Name: "x", Value: rapid.SampledFrom(lits).Draw(t, "ax")}, {Name: "l", Value: rapid.SampledFrom(lits).Draw(t, "al")}}
		}
		return out
	}
	var sels func(depth int, self int) []*ref.Selection
	sels = func(depth int, self int) []*ref.Selection {
		var out []*ref.Selection
		n := rapid.IntRange(1, 4).Draw(t, "nsel")
		for i := 0; i < n; i++ {
			k := rapid.IntRange(0, 9).Draw(t, "kind")
			switch {
			case k <= 2:
				out = append(out, &ref.Selection{Kind: "Field", Alias: rapid.SampledFrom(overlapLeafAliases).Draw(t, "la"), Name: rapid.SampledFrom(overlapLeaves).Draw(t, "leaf")})
			case k == 3:
				out = append(out, &ref.Selection{Kind: "Field", Alias: rapid.SampledFrom(overlapLeafAliases).Draw(t, "ia"), Name: "i", Args: args()})
			case k <= 5 && depth > 0:
				out = append(out, &ref.Selection{Kind: "Field", Alias: rapid.SampledFrom(overlapCompositeAliases).Draw(t, "ca"), Name: rapid.SampledFrom(overlapComposites).Draw(t, "comp"), Sels: sels(depth-1, self)})
			case k <= 7 && depth > 0:
				in := &ref.Selection{Kind: "Inline", Sels: sels(depth-1, self)}
				if rapid.IntRange(0, 4).Draw(t, "cond") != 0 {
					in.TypeCond = rapid.SampledFrom(overlapTypes).Draw(t, "tc")
				}
				out = append(out, in)
			default:
				lo := 0
				if acyclic {
					lo = self + 1
				}
				if lo >= nfrag {
					out = append(out, &ref.Selection{Kind: "Field", Name: "name"})
					continue
				}
				out = append(out, &ref.Selection{Kind: "Spread", Name: names[rapid.IntRange(lo, nfrag-1).Draw(t, "spread")]})
			}
		}
		// a same-named field selected twice with the same (possibly faulty) arguments
		if rapid.IntRange(0, 5).Draw(t, "dup") == 0 {
			for _, s := range out {
				if s.Kind == "Field" && s.Name == "i" {
					c := *s
					out = append(out, &c)
					break
				}
			}
		}
		return out
	}
	d := &ref.Doc{}
	nops := rapid.IntRange(1, 2).Draw(t, "nops")
	for i := 0; i < nops; i++ {
		op := &ref.Operation{Op: rapid.SampledFrom([]string{"query", "query", "query", "mutation", "subscription"}).Draw(t, "op")}
		if nops > 1 {
			op.Name = fmt.Sprintf("Op%d", i)
		}
		if rapid.IntRange(0, 2).Draw(t, "hasvar") == 0 {
			op.Vars = []*ref.VarDef{{Name: "v", Type: &ref.Type{Name: rapid.SampledFrom([]string{"Int", "In", "String"}).Draw(t, "vt")}}}
		}
		op.Sels = sels(3, -1)
		d.Ops = append(d.Ops, op)
	}
	for i := 0; i < nfrag; i++ {
		d.Frags = append(d.Frags, &ref.Fragment{Name: names[i], TypeCond: rapid.SampledFrom(overlapTypes).Draw(t, "ftc"), Sels: sels(2, i)})
	}
	return d
}

// IntrospectionDocument draws an introspection query over __schema / __type with fragments on
// __Type that are spread at several nesting depths (the shape the depth rule must handle).
func IntrospectionDocument(t *rapid.T) *ref.Doc { return introspectionDocument(t, false) }

// IntrospectionDocumentWithFragments: as above, with at least one fragment that every root spreads.
func IntrospectionDocumentWithFragments(t *rapid.T) *ref.Doc { return introspectionDocument(t, true) }

func introspectionDocument(t *rapid.T, force bool) *ref.Doc {
	nfrag := rapid.IntRange(0, 3).Draw(t, "nfrag")
	if force && nfrag == 0 {
		nfrag = 1
	}
	names := make([]string, nfrag)
	for i := range names {
		names[i] = fmt.Sprintf("T%d", i)
	}
	var typeSel func(depth, self int) []*ref.Selection
	inputValueSel := func(depth, self int) []*ref.Selection {
		out := []*ref.Selection{{Kind: "Field", Name: "name"}}
		if depth > 0 && rapid.Bool().Draw(t, "ivtype") {
			out = append(out, &ref.Selection{Kind: "Field", Name: "type", Sels: typeSel(depth-1, self)})
		}
		return out
	}
	fieldSel := func(depth, self int) []*ref.Selection {
		out := []*ref.Selection{{Kind: "Field", Name: "name"}}
		if depth > 0 && rapid.Bool().Draw(t, "ftype") {
			out = append(out, &ref.Selection{Kind: "Field", Name: "type", Sels: typeSel(depth-1, self)})
		}
		if depth > 0 && rapid.IntRange(0, 3).Draw(t, "fargs") == 0 {
			out = append(out, &ref.Selection{Kind: "Field", Name: "args", Sels: inputValueSel(depth-1, self)})
		}
		return out
	}
	typeSel = func(depth, self int) []*ref.Selection {
		out := []*ref.Selection{{Kind: "Field", Name: rapid.SampledFrom([]string{"name", "kind"}).Draw(t, "tleaf")}}
		n := rapid.IntRange(0, 3).Draw(t, "ntsel")
		for i := 0; i < n; i++ {
			k := rapid.IntRange(0, 6).Draw(t, "tk")
			switch {
			case k == 0 && depth > 0:
				out = append(out, &ref.Selection{Kind: "Field", Alias: fmt.Sprintf("a%d_%d_%d", self+1, depth, i), Name: "fields", Sels: fieldSel(depth-1, self)})
			case k == 1 && depth > 0:
				out = append(out, &ref.Selection{Kind: "Field", Alias: fmt.Sprintf("a%d_%d_%d", self+1, depth, i), Name: rapid.SampledFrom([]string{"interfaces", "possibleTypes"}).Draw(t, "tl"), Sels: typeSel(depth-1, self)})
			case k == 2 && depth > 0:
				out = append(out, &ref.Selection{Kind: "Field", Alias: fmt.Sprintf("a%d_%d_%d", self+1, depth, i), Name: "inputFields", Sels: inputValueSel(depth-1, self)})
			case k == 3 && depth > 0:
				out = append(out, &ref.Selection{Kind: "Field", Alias: fmt.Sprintf("a%d_%d_%d", self+1, depth, i), Name: "ofType", Sels: typeSel(depth-1, self)})
			case k == 4 && depth > 0:
				out = append(out, &ref.Selection{Kind: "Inline", TypeCond: rapid.SampledFrom([]string{"", "__Type"}).Draw(t, "itc"), Sels: typeSel(depth-1, self)})
			default:
				if self+1 < nfrag {
					out = append(out, &ref.Selection{Kind: "Spread", Name: names[rapid.IntRange(self+1, nfrag-1).Draw(t, "tspread")]})
				}
			}
		}
		return out
	}
	d := &ref.Doc{}
	var roots []*ref.Selection
	for i, n := 0, rapid.IntRange(1, 2).Draw(t, "nroots"); i < n; i++ {
		if rapid.Bool().Draw(t, "schemaroot") {
			roots = append(roots, &ref.Selection{Kind: "Field", Alias: fmt.Sprintf("r%d", i), Name: "__schema", Sels: []*ref.Selection{
				{Kind: "Field", Name: rapid.SampledFrom([]string{"types", "queryType"}).Draw(t, "sroot"), Sels: typeSel(5, -1)}}})
		} else {
			roots = append(roots, &ref.Selection{Kind: "Field", Alias: fmt.Sprintf("r%d", i), Name: "__type", Args: []*ref.Arg{{Name: "name", Value: &ref.Value{Kind: "String", Raw: "Query"}}}, Sels: typeSel(5, -1)})
		}
	}
	if force {
		for _, r := range roots {
			at := r
			if r.Name == "__schema" {
				at = r.Sels[0]
			}
			at.Sels = append(at.Sels, &ref.Selection{Kind: "Spread", Name: names[0]})
		}
	}
	d.Ops = []*ref.Operation{{Op: "query", Sels: roots}}
	for i := 0; i < nfrag; i++ {
		d.Frags = append(d.Frags, &ref.Fragment{Name: names[i], TypeCond: "__Type", Sels: typeSel(4, i)})
	}
	DropUnreachableFragments(d)
	return d
}

// DropUnreachableFragments removes fragment definitions no operation reaches.
func DropUnreachableFragments(d *ref.Doc) {
	byName := map[string]*ref.Fragment{}
	for _, f := range d.Frags {
		if byName[f.Name] == nil {
			byName[f.Name] = f
		}
	}
	reach := map[string]bool{}
	var walk func(ss []*ref.Selection)
	walk = func(ss []*ref.Selection) {
		for _, s := range ss {
			if s.Kind == "Spread" && !reach[s.Name] {
				reach[s.Name] = true
				if f := byName[s.Name]; f != nil {
					walk(f.Sels)
				}
			}
			walk(s.Sels)
		}
	}
	for _, o := range d.Ops {
		walk(o.Sels)
	}
	var keep []*ref.Fragment
	for _, f := range d.Frags {
		if reach[f.Name] {
			keep = append(keep, f)
		}
	}
	d.Frags = keep
}

func leafSel(t *rapid.T) *ref.Selection {
	return &ref.Selection{Kind: "Field", Alias: rapid.SampledFrom(overlapLeafAliases).Draw(t, "pla"), Name: rapid.SampledFrom(overlapLeaves).Draw(t, "pleaf")}
}

// twinRecursion: two fragments of the same shape that recurse into themselves through fields,
// one field below an inline fragment (possibly on different object types in the two fragments,
// which makes that pair mutually exclusive), one directly; both spread into one selection set.
func twinRecursion(t *rapid.T) *ref.Doc {
	objs := []string{"Dog", "Cat", "Pet", "Person"}
	c1 := rapid.SampledFrom(overlapComposites).Draw(t, "c1")
	c2 := rapid.SampledFrom(overlapComposites).Draw(t, "c2")
	a1 := rapid.SampledFrom([]string{"o", "f", ""}).Draw(t, "a1")
	a2 := rapid.SampledFrom([]string{"f", "o", ""}).Draw(t, "a2")
	order := rapid.Bool().Draw(t, "order")
	mk := func(name, cond string) *ref.Fragment {
		under := &ref.Selection{Kind: "Inline", TypeCond: cond, Sels: []*ref.Selection{{Kind: "Field", Alias: a1, Name: c1, Sels: []*ref.Selection{{Kind: "Spread", Name: name}}}}}
		direct := &ref.Selection{Kind: "Field", Alias: a2, Name: c2, Sels: []*ref.Selection{{Kind: "Spread", Name: name}}}
		f := &ref.Fragment{Name: name, TypeCond: rapid.SampledFrom([]string{"Pet", "Pet", "Person", "Query"}).Draw(t, "ftc")}
		if order {
			f.Sels = []*ref.Selection{under, direct}
		} else {
			f.Sels = []*ref.Selection{direct, under}
		}
		if rapid.Bool().Draw(t, "extra") {
			f.Sels = append(f.Sels, leafSel(t))
		}
		return f
	}
	a := mk("A", rapid.SampledFrom(objs).Draw(t, "ca"))
	b := mk("B", rapid.SampledFrom(objs).Draw(t, "cb"))
	root := &ref.Selection{Kind: "Field", Name: rapid.SampledFrom([]string{"pet", "person", "q"}).Draw(t, "root"), Sels: []*ref.Selection{{Kind: "Spread", Name: "A"}, {Kind: "Spread", Name: "B"}}}
	return &ref.Doc{Ops: []*ref.Operation{{Op: "query", Sels: []*ref.Selection{root}}}, Frags: []*ref.Fragment{a, b}}
}

// exclusiveCycle: three fragments that spread each other in a cycle; two of them (mostly on
// different object types) select the same response name with sub-selections that spread
// fragments of the cycle again; two are spread side by side. The compared-pairs memo of the merge
// rule is then consulted with both exclusivity flags for the same pair, inside a cycle.
func exclusiveCycle(t *rapid.T) *ref.Doc {
	names := []string{"A", "B", "C"}
	conds := []string{rapid.SampledFrom([]string{"Dog", "Dog", "Pet"}).Draw(t, "ta"), rapid.SampledFrom([]string{"Cat", "Cat", "Dog", "Pet"}).Draw(t, "tb"), rapid.SampledFrom([]string{"Pet", "Dog", "Cat"}).Draw(t, "tc")}
	field := rapid.SampledFrom([]string{"friend", "friend", "owner"}).Draw(t, "field")
	inner := func(frag string) []*ref.Selection {
		if field == "owner" {
			return []*ref.Selection{{Kind: "Field", Name: "pet", Sels: []*ref.Selection{{Kind: "Spread", Name: frag}}}}
		}
		return []*ref.Selection{{Kind: "Spread", Name: frag}}
	}
	var frags []*ref.Fragment
	for i, n := range names {
		f := &ref.Fragment{Name: n, TypeCond: conds[i]}
		if i < 2 || rapid.Bool().Draw(t, "cfield") {
			f.Sels = append(f.Sels, &ref.Selection{Kind: "Field", Alias: rapid.SampledFrom([]string{"", "", "f"}).Draw(t, "alias"), Name: field, Sels: inner(rapid.SampledFrom(names).Draw(t, "again"))})
		}
		if rapid.IntRange(0, 2).Draw(t, "leaf") == 0 {
			f.Sels = append(f.Sels, leafSel(t))
		}
		// the cycle edge, sometimes reversed or doubled
		next := names[(i+1)%3]
		if rapid.IntRange(0, 5).Draw(t, "rev") == 0 {
			next = names[(i+2)%3]
		}
		f.Sels = append(f.Sels, &ref.Selection{Kind: "Spread", Name: next})
		if rapid.IntRange(0, 3).Draw(t, "shuffle") == 0 && len(f.Sels) > 1 {
			f.Sels[0], f.Sels[len(f.Sels)-1] = f.Sels[len(f.Sels)-1], f.Sels[0]
		}
		frags = append(frags, f)
	}
	x, y := rapid.SampledFrom(names).Draw(t, "x"), rapid.SampledFrom(names).Draw(t, "y")
	root := &ref.Selection{Kind: "Field", Name: rapid.SampledFrom([]string{"pet", "pet", "cd"}).Draw(t, "root"), Sels: []*ref.Selection{{Kind: "Spread", Name: x}, {Kind: "Spread", Name: y}}}
	return &ref.Doc{Ops: []*ref.Operation{{Op: "query", Sels: []*ref.Selection{root}}}, Frags: frags}
}

// exclusiveThenCommon: two fragments meet first below same-named fields of two different
// object types (mutually exclusive parents) and then in one selection set, in either order.
func exclusiveThenCommon(t *rapid.T, acyclic bool) *ref.Doc {
	body := func() []*ref.Selection {
		var out []*ref.Selection
		for i, n := 0, rapid.IntRange(1, 3).Draw(t, "nb"); i < n; i++ {
			out = append(out, leafSel(t))
		}
		return out
	}
	a := &ref.Fragment{Name: "A", TypeCond: "Person", Sels: body()}
	b := &ref.Fragment{Name: "B", TypeCond: "Person", Sels: body()}
	keeper := func(frag string) *ref.Selection {
		return &ref.Selection{Kind: "Field", Name: "owner", Sels: []*ref.Selection{{Kind: "Spread", Name: frag}}}
	}
	exclusive := &ref.Selection{Kind: "Field", Name: rapid.SampledFrom([]string{"pet", "cd"}).Draw(t, "abs"), Sels: []*ref.Selection{
		{Kind: "Inline", TypeCond: "Dog", Sels: []*ref.Selection{keeper("A")}},
		{Kind: "Inline", TypeCond: rapid.SampledFrom([]string{"Cat", "Cat", "Dog"}).Draw(t, "second"), Sels: []*ref.Selection{keeper("B")}}}}
	common := &ref.Selection{Kind: "Field", Name: "person", Sels: []*ref.Selection{{Kind: "Spread", Name: "A"}, {Kind: "Spread", Name: "B"}}}
	sels := []*ref.Selection{exclusive, common}
	if rapid.Bool().Draw(t, "commonfirst") {
		sels = []*ref.Selection{common, exclusive}
	}
	frags := []*ref.Fragment{a, b}
	// optionally one or both fragments sit in a fragment cycle (through a third fragment, directly,
	// or through each other): the comparison must still end
	cyc := 5
	if !acyclic {
		cyc = rapid.IntRange(0, 5).Draw(t, "cycle")
	}
	switch cyc {
	case 0:
		a.Sels = append(a.Sels, &ref.Selection{Kind: "Spread", Name: "C"})
		frags = append(frags, &ref.Fragment{Name: "C", TypeCond: "Person", Sels: append(body(), &ref.Selection{Kind: "Spread", Name: "A"})})
	case 1:
		b.Sels = append(b.Sels, &ref.Selection{Kind: "Spread", Name: "C"})
		frags = append(frags, &ref.Fragment{Name: "C", TypeCond: "Person", Sels: append(body(), &ref.Selection{Kind: "Spread", Name: "B"}, &ref.Selection{Kind: "Spread", Name: "A"})})
	case 2:
		a.Sels = append(a.Sels, &ref.Selection{Kind: "Spread", Name: "B"})
		b.Sels = append(b.Sels, &ref.Selection{Kind: "Spread", Name: "A"})
	case 3:
		a.Sels = append(a.Sels, &ref.Selection{Kind: "Field", Name: "pet", Sels: []*ref.Selection{{Kind: "Field", Name: "owner", Sels: []*ref.Selection{{Kind: "Spread", Name: "A"}}}}})
	}
	return &ref.Doc{Ops: []*ref.Operation{{Op: "query", Sels: sels}}, Frags: frags}
}

// FragmentGraphDocument draws a document whose fragments form a random spread graph: mostly a
// chain in which every fragment spreads its successor several times (the shape on which a
// per-path search is exponential), with random forward edges and back edges (cycles), plain,
// under a field that keeps the type, or under an alias. The context is Query, __Type or
// __Schema so the introspection rules see it too. It returns the schema to validate against.
func FragmentGraphDocument(t *rapid.T, userSchema, introSchema string) (string, string) {
	type ctx struct {
		schema, typ, leaf string
		self              []string
		roots             []string
	}
	cs := []ctx{
		{userSchema, "Query", "s", []string{"q"}, []string{"{...f0}", "{q{...f0}}", "{...f0 q{...f0}}"}},
		{introSchema, "__Type", "name", []string{"ofType", "interfaces", "possibleTypes"}, []string{`{__type(name:"A"){...f0}}`, "{__schema{types{...f0}}}", "{__schema{queryType{...f0} types{...f0}}}"}},
		{introSchema, "__Schema", "description", nil, []string{"{__schema{...f0}}"}},
	}
	c := cs[rapid.IntRange(0, len(cs)-1).Draw(t, "ctx")]
	n := rapid.IntRange(2, 45).Draw(t, "nfrag")
	fan := rapid.IntRange(1, 3).Draw(t, "fan")
	pBack := rapid.IntRange(0, 3).Draw(t, "backedges") // 0: acyclic
	var sb strings.Builder
	sb.WriteString(rapid.SampledFrom(c.roots).Draw(t, "root"))
	for i := 0; i < n; i++ {
		fmt.Fprintf(&sb, " fragment f%d on %s{", i, c.typ)
		if i == n-1 || rapid.IntRange(0, 5).Draw(t, "leaf") == 0 {
			sb.WriteString(c.leaf + " ")
		}
		k := fan
		if rapid.IntRange(0, 4).Draw(t, "varyFan") == 0 {
			k = rapid.IntRange(1, 3).Draw(t, "k")
		}
		for j := 0; j < k; j++ {
			target := i + 1
			switch r := rapid.IntRange(0, 19).Draw(t, "edge"); {
			case r < 2 && i+2 < n:
				target = rapid.IntRange(i+2, n-1).Draw(t, "fwd")
			case r < 2+pBack:
				target = rapid.IntRange(0, i).Draw(t, "back")
			}
			if target >= n {
				if pBack == 0 {
					continue
				}
				target = rapid.IntRange(0, n-1).Draw(t, "wrap")
			}
			switch w := rapid.IntRange(0, 9).Draw(t, "wrapKind"); {
			case w < 6 || len(c.self) == 0:
				fmt.Fprintf(&sb, "...f%d ", target)
			case w < 8:
				fmt.Fprintf(&sb, "%s{...f%d} ", rapid.SampledFrom(c.self).Draw(t, "self"), target)
			default:
				fmt.Fprintf(&sb, "x%d:%s{...f%d} ", rapid.IntRange(0, 1).Draw(t, "alias"), rapid.SampledFrom(c.self).Draw(t, "self"), target)
			}
		}
		sb.WriteString("}")
	}
	return c.schema, sb.String()
}
