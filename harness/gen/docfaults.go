package gen

import (
	"fmt"
	"sort"

	"pgregory.net/rapid"

	"verif/harness/ref"
)

// G9: document fault operators. Each mutates a valid typed document in place so that the
// tagged validation rule is violated by construction.

type DocFault struct {
	Name string
	Rule string
}

type docFaultOp struct {
	name string
	rule string
	f    func(t *rapid.T, td *TypedDoc, s *ref.Schema) bool
}

func pickN(t *rapid.T, label string, n int) int {
	if n <= 0 {
		return -1
	}
	return rapid.IntRange(0, n-1).Draw(t, label)
}

func leafTypename() *ref.Selection { return &ref.Selection{Kind: "Field", Name: "__typename"} }

func queryOps(td *TypedDoc) []*ref.Operation {
	var out []*ref.Operation
	for _, o := range td.Doc.Ops {
		if o.Op == "query" {
			out = append(out, o)
		}
	}
	return out
}

// setsOf returns selection-set sites satisfying pred.
func setsOf(td *TypedDoc, pred func(SetSite) bool) []SetSite {
	var out []SetSite
	for _, s := range td.Sets {
		if pred(s) {
			out = append(out, s)
		}
	}
	return out
}

func fieldsOf(td *TypedDoc, pred func(FieldSite) bool) []FieldSite {
	var out []FieldSite
	for _, s := range td.Fields {
		if pred(s) {
			out = append(out, s)
		}
	}
	return out
}

func valuesOf(td *TypedDoc, pred func(ValueSite) bool) []ValueSite {
	var out []ValueSite
	for _, s := range td.Values {
		if pred(s) {
			out = append(out, s)
		}
	}
	return out
}

func setValue(dst *ref.Value, src *ref.Value) { *dst = *src }

func namedNonList(t *ref.Type) bool { return t != nil && t.Elem == nil }

// leafFieldsOf lists argument-free leaf fields of an object/interface type.
func leafFieldsOf(s *ref.Schema, typ string) []*ref.FieldDef {
	var out []*ref.FieldDef
	d := s.Types[typ]
	if d == nil || (d.Kind != "OBJECT" && d.Kind != "INTERFACE") {
		return nil
	}
	for _, f := range d.Fields {
		if s.IsLeaf(f.Type.Base()) {
			required := false
			for _, a := range f.Args {
				if a.Type.NonNull && a.Default == nil {
					required = true
				}
			}
			if !required {
				out = append(out, f)
			}
		}
	}
	return out
}

func opOfUnit(td *TypedDoc, unit string) *ref.Operation {
	var i int
	if _, err := fmt.Sscanf(unit, "op:%d", &i); err == nil && i < len(td.Doc.Ops) {
		return td.Doc.Ops[i]
	}
	return nil
}

// wrongLiteral returns a literal that cannot be coerced to the named type.
func wrongLiteral(t *rapid.T, s *ref.Schema, name string) *ref.Value {
	str := &ref.Value{Kind: "String", Raw: "str"}
	i := &ref.Value{Kind: "Int", Raw: "1"}
	fl := &ref.Value{Kind: "Float", Raw: "1.5"}
	b := &ref.Value{Kind: "Boolean", Raw: "true"}
	en := &ref.Value{Kind: "Enum", Raw: "NOSUCHVALUE"}
	emptyObj := &ref.Value{Kind: "Object"}
	obj := &ref.Value{Kind: "Object", Fields: []*ref.ObjField{{Name: "zz", Value: &ref.Value{Kind: "Int", Raw: "1"}}}}
	var pool []*ref.Value
	switch name {
	case "Int":
		pool = []*ref.Value{str, fl, b, en, emptyObj, obj}
	case "Float":
		pool = []*ref.Value{str, b, en, emptyObj}
	case "String":
		pool = []*ref.Value{i, fl, b, en, emptyObj}
	case "Boolean":
		pool = []*ref.Value{str, i, en, emptyObj, {Kind: "String", Raw: "true"}}
	case "ID":
		pool = []*ref.Value{fl, b, en, emptyObj}
	default:
		d := s.Types[name]
		if d == nil {
			return nil
		}
		switch d.Kind {
		case "ENUM":
			pool = []*ref.Value{{Kind: "String", Raw: d.EnumValues[0].Name}, i, en, b, emptyObj}
		case "INPUT_OBJECT":
			pool = []*ref.Value{str, i, b, en}
		default:
			return nil
		}
	}
	return rapid.SampledFrom(pool).Draw(t, "wrong")
}

var docFaultOps = []docFaultOp{
	{"unknown-field", "FieldsOnCorrectType", func(t *rapid.T, td *TypedDoc, s *ref.Schema) bool {
		fs := td.Fields
		if len(fs) == 0 {
			return false
		}
		fs[pickN(t, "site", len(fs))].Sel.Name = "nosuchfield"
		return true
	}},
	{"field-of-one-implementer-on-abstract-type", "FieldsOnCorrectType", func(t *rapid.T, td *TypedDoc, s *ref.Schema) bool {
		sets := setsOf(td, func(x SetSite) bool {
			d := s.Types[x.Parent]
			return d != nil && (d.Kind == "INTERFACE" || d.Kind == "UNION")
		})
		for _, st := range sets {
			for _, o := range s.PossibleObjects(st.Parent) {
				for _, f := range leafFieldsOf(s, o) {
					onParent := false
					for _, pf := range s.Types[st.Parent].Fields {
						if pf.Name == f.Name {
							onParent = true
						}
					}
					if !onParent {
						*st.Set = append(*st.Set, &ref.Selection{Kind: "Field", Alias: "wrongbranch", Name: f.Name})
						return true
					}
				}
			}
		}
		return false
	}},
	{"selection-on-leaf", "ScalarLeafs", func(t *rapid.T, td *TypedDoc, s *ref.Schema) bool {
		fs := fieldsOf(td, func(f FieldSite) bool { return s.IsLeaf(f.Def.Type.Base()) })
		if len(fs) == 0 {
			return false
		}
		fs[pickN(t, "site", len(fs))].Sel.Sels = []*ref.Selection{leafTypename()}
		return true
	}},
	{"missing-selection-on-composite", "ScalarLeafs", func(t *rapid.T, td *TypedDoc, s *ref.Schema) bool {
		fs := fieldsOf(td, func(f FieldSite) bool { return s.IsComposite(f.Def.Type.Base()) })
		if len(fs) == 0 {
			return false
		}
		fs[pickN(t, "site", len(fs))].Sel.Sels = nil
		return true
	}},
	{"unknown-argument-on-field", "KnownArgumentNames", func(t *rapid.T, td *TypedDoc, s *ref.Schema) bool {
		if len(td.Fields) == 0 {
			return false
		}
		f := td.Fields[pickN(t, "site", len(td.Fields))]
		f.Sel.Args = append(f.Sel.Args, &ref.Arg{Name: "nosucharg", Value: &ref.Value{Kind: "Int", Raw: "1"}})
		return true
	}},
	{"unknown-argument-on-directive", "KnownArgumentNames", func(t *rapid.T, td *TypedDoc, s *ref.Schema) bool {
		if len(td.Fields) == 0 {
			return false
		}
		f := td.Fields[pickN(t, "site", len(td.Fields))]
		for _, d := range f.Sel.Directives {
			if d.Name == "skip" {
				return false
			}
		}
		f.Sel.Directives = append(f.Sel.Directives, &ref.Directive{Name: "skip", Args: []*ref.Arg{{Name: "if", Value: &ref.Value{Kind: "Boolean", Raw: "true"}}, {Name: "unless", Value: &ref.Value{Kind: "Boolean", Raw: "true"}}}})
		return true
	}},
	{"duplicate-argument", "UniqueArgumentNames", func(t *rapid.T, td *TypedDoc, s *ref.Schema) bool {
		if len(td.Args) == 0 {
			return false
		}
		a := td.Args[pickN(t, "site", len(td.Args))]
		c := *a.Arg
		*a.Args = append(*a.Args, &c)
		return true
	}},
	{"missing-required-argument", "ProvidedRequiredArguments", func(t *rapid.T, td *TypedDoc, s *ref.Schema) bool {
		var req []ArgSite
		for _, a := range td.Args {
			if a.Def.Type.NonNull && a.Def.Default == nil {
				req = append(req, a)
			}
		}
		if len(req) == 0 {
			return false
		}
		a := req[pickN(t, "site", len(req))]
		var keep []*ref.Arg
		for _, x := range *a.Args {
			if x.Name != a.Arg.Name {
				keep = append(keep, x)
			}
		}
		removed := len(keep) < len(*a.Args)
		*a.Args = keep
		// the site is gone: later faults must not pick it (duplicate-argument would put it back)
		var live []ArgSite
		for _, x := range td.Args {
			if x.Arg != a.Arg {
				live = append(live, x)
			}
		}
		td.Args = live
		return removed
	}},
	{"wrong-literal-kind", "ValuesOfCorrectType", func(t *rapid.T, td *TypedDoc, s *ref.Schema) bool {
		vs := valuesOf(td, func(v ValueSite) bool {
			if !namedNonList(v.Type) || v.Value.Kind == "Null" {
				return false
			}
			d := s.Types[v.Type.Name]
			return d != nil && (isBuiltinScalar(v.Type.Name) || d.Kind == "ENUM" || d.Kind == "INPUT_OBJECT")
		})
		if len(vs) == 0 {
			return false
		}
		v := vs[pickN(t, "site", len(vs))]
		w := wrongLiteral(t, s, v.Type.Name)
		if w == nil {
			return false
		}
		setValue(v.Value, w)
		return true
	}},
	{"int-outside-32-bits", "ValuesOfCorrectType", func(t *rapid.T, td *TypedDoc, s *ref.Schema) bool {
		vs := valuesOf(td, func(v ValueSite) bool { return namedNonList(v.Type) && v.Type.Name == "Int" && v.Value.Kind == "Int" })
		if len(vs) == 0 {
			return false
		}
		setValue(vs[pickN(t, "site", len(vs))].Value, &ref.Value{Kind: "Int", Raw: rapid.SampledFrom([]string{"2147483648", "-2147483649", "9999999999", "9223372036854775807", "9223372036854775808"}).Draw(t, "big")})
		return true
	}},
	{"float-not-finite", "ValuesOfCorrectType", func(t *rapid.T, td *TypedDoc, s *ref.Schema) bool {
		vs := valuesOf(td, func(v ValueSite) bool {
			return namedNonList(v.Type) && v.Type.Name == "Float" && (v.Value.Kind == "Int" || v.Value.Kind == "Float")
		})
		if len(vs) == 0 {
			return false
		}
		setValue(vs[pickN(t, "site", len(vs))].Value, &ref.Value{Kind: "Float", Raw: rapid.SampledFrom([]string{"1e999", "-1E400", "1.5e309", "179769313486231580793728971405303415079934132710037826936173778980444968292764750946649017977587207096330286416692887910946555547851940402630657488671505820681908902000708383676273854845817711531764475730270069855571366959622842914819860834936475292719074168444365510704342711559699508093042880177904174497792.0"}).Draw(t, "huge")})
		return true
	}},
	{"null-for-non-null", "ValuesOfCorrectType", func(t *rapid.T, td *TypedDoc, s *ref.Schema) bool {
		vs := valuesOf(td, func(v ValueSite) bool { return v.Type.NonNull })
		if len(vs) == 0 {
			return false
		}
		setValue(vs[pickN(t, "site", len(vs))].Value, &ref.Value{Kind: "Null", Raw: "null"})
		return true
	}},
	{"list-nested-too-deep", "ValuesOfCorrectType", func(t *rapid.T, td *TypedDoc, s *ref.Schema) bool {
		vs := valuesOf(td, func(v ValueSite) bool {
			return namedNonList(v.Type) && isBuiltinScalar(v.Type.Name) && v.Value.Kind != "Null"
		})
		if len(vs) == 0 {
			return false
		}
		v := vs[pickN(t, "site", len(vs))]
		inner := *v.Value
		setValue(v.Value, &ref.Value{Kind: "List", Items: []*ref.Value{&inner}})
		return true
	}},
	{"unknown-input-field", "ValuesOfCorrectType", func(t *rapid.T, td *TypedDoc, s *ref.Schema) bool {
		vs := valuesOf(td, func(v ValueSite) bool {
			d := s.Types[v.Type.Base()]
			return namedNonList(v.Type) && d != nil && d.Kind == "INPUT_OBJECT" && v.Value.Kind == "Object" && !hasDirective(d, "oneOf")
		})
		if len(vs) == 0 {
			return false
		}
		v := vs[pickN(t, "site", len(vs))]
		v.Value.Fields = append(v.Value.Fields, &ref.ObjField{Name: "nosuchfield", Value: &ref.Value{Kind: "Int", Raw: "1"}})
		return true
	}},
	{"duplicate-input-field", "UniqueInputFieldNames", func(t *rapid.T, td *TypedDoc, s *ref.Schema) bool {
		vs := valuesOf(td, func(v ValueSite) bool { return v.Value.Kind == "Object" && len(v.Value.Fields) > 0 })
		if len(vs) == 0 {
			return false
		}
		v := vs[pickN(t, "site", len(vs))]
		c := *v.Value.Fields[0]
		v.Value.Fields = append(v.Value.Fields, &c)
		return true
	}},
	{"missing-required-input-field", "ValuesOfCorrectType", func(t *rapid.T, td *TypedDoc, s *ref.Schema) bool {
		for _, v := range td.Values {
			d := s.Types[v.Type.Base()]
			if !namedNonList(v.Type) || d == nil || d.Kind != "INPUT_OBJECT" || v.Value.Kind != "Object" || hasDirective(d, "oneOf") {
				continue
			}
			for _, fd := range d.Fields {
				if fd.Type.NonNull && fd.Default == nil {
					var keep []*ref.ObjField
					for _, f := range v.Value.Fields {
						if f.Name != fd.Name {
							keep = append(keep, f)
						}
					}
					if len(keep) != len(v.Value.Fields) {
						v.Value.Fields = keep
						return true
					}
				}
			}
		}
		return false
	}},
	{"oneof-wrong-key-count-or-null", "ValuesOfCorrectType", func(t *rapid.T, td *TypedDoc, s *ref.Schema) bool {
		for _, v := range td.Values {
			d := s.Types[v.Type.Base()]
			if !namedNonList(v.Type) || d == nil || v.Value.Kind != "Object" || !hasDirective(d, "oneOf") || len(v.Value.Fields) != 1 {
				continue
			}
			switch rapid.IntRange(0, 4).Draw(t, "how") {
			case 3:
				// the single member is not a field of the type
				v.Value.Fields[0].Name = "nosuchfield"
			case 4:
				// ... and its value is null
				v.Value.Fields[0].Name = "nosuchfield"
				v.Value.Fields[0].Value = &ref.Value{Kind: "Null", Raw: "null"}
			case 0:
				v.Value.Fields = nil
			case 1:
				if len(d.Fields) < 2 {
					v.Value.Fields = nil
					break
				}
				other := d.Fields[0]
				if other.Name == v.Value.Fields[0].Name {
					other = d.Fields[1]
				}
				nn := *other.Type
				nn.NonNull = true
				v.Value.Fields = append(v.Value.Fields, &ref.ObjField{Name: other.Name, Value: ConstOfType(t, func(n string) *ref.TypeDef { return s.Types[n] }, &nn, 1, false)})
			default:
				v.Value.Fields[0].Value = &ref.Value{Kind: "Null", Raw: "null"}
			}
			return true
		}
		return false
	}},
	{"unknown-directive", "KnownDirectives", func(t *rapid.T, td *TypedDoc, s *ref.Schema) bool {
		if len(td.Fields) == 0 {
			return false
		}
		f := td.Fields[pickN(t, "site", len(td.Fields))]
		f.Sel.Directives = append(f.Sel.Directives, &ref.Directive{Name: "nosuchdirective"})
		return true
	}},
	{"misplaced-directive", "KnownDirectives", func(t *rapid.T, td *TypedDoc, s *ref.Schema) bool {
		if len(td.Fields) == 0 {
			return false
		}
		f := td.Fields[pickN(t, "site", len(td.Fields))]
		// @deprecated is declared for type-system locations only
		for _, d := range f.Sel.Directives {
			if d.Name == "deprecated" {
				return false
			}
		}
		if contains(s.Directives["deprecated"].Locations, "FIELD") {
			return false
		}
		f.Sel.Directives = append(f.Sel.Directives, &ref.Directive{Name: "deprecated"})
		return true
	}},
	{"misplaced-directive-on-operation", "KnownDirectives", func(t *rapid.T, td *TypedDoc, s *ref.Schema) bool {
		op := td.Doc.Ops[pickN(t, "op", len(td.Doc.Ops))]
		if op.Shorthand || contains(s.Directives["include"].Locations, "QUERY") {
			return false
		}
		for _, d := range op.Directives {
			if d.Name == "include" {
				return false
			}
		}
		op.Directives = append(op.Directives, &ref.Directive{Name: "include", Args: []*ref.Arg{{Name: "if", Value: &ref.Value{Kind: "Boolean", Raw: "true"}}}})
		return true
	}},
	{"non-repeatable-directive-repeated", "UniqueDirectivesPerLocation", func(t *rapid.T, td *TypedDoc, s *ref.Schema) bool {
		if len(td.Fields) == 0 {
			return false
		}
		f := td.Fields[pickN(t, "site", len(td.Fields))]
		if d := s.Directives["skip"]; d == nil || d.Repeatable {
			return false
		}
		mk := func() *ref.Directive {
			return &ref.Directive{Name: "skip", Args: []*ref.Arg{{Name: "if", Value: &ref.Value{Kind: "Boolean", Raw: "false"}}}}
		}
		n := 0
		for _, d := range f.Sel.Directives {
			if d.Name == "skip" {
				n++
			}
		}
		for ; n < 2; n++ {
			f.Sel.Directives = append(f.Sel.Directives, mk())
		}
		return true
	}},
	{"undefined-variable", "NoUndefinedVariables", func(t *rapid.T, td *TypedDoc, s *ref.Schema) bool {
		if len(td.Args) == 0 {
			return false
		}
		a := td.Args[pickN(t, "site", len(td.Args))]
		a.Arg.Value = &ref.Value{Kind: "Variable", Raw: "undefinedvar"}
		return true
	}},
	{"undefined-variable-nested", "NoUndefinedVariables", func(t *rapid.T, td *TypedDoc, s *ref.Schema) bool {
		vs := valuesOf(td, func(v ValueSite) bool {
			return v.Value.Kind == "List" || (v.Value.Kind == "Object" && len(v.Value.Fields) > 0)
		})
		if len(vs) == 0 {
			return false
		}
		v := vs[pickN(t, "site", len(vs))]
		if v.Value.Kind == "List" {
			v.Value.Items = append(v.Value.Items, &ref.Value{Kind: "Variable", Raw: "undefinedvar"})
		} else {
			v.Value.Fields[0].Value = &ref.Value{Kind: "Variable", Raw: "undefinedvar"}
		}
		return true
	}},
	{"unused-variable", "NoUnusedVariables", func(t *rapid.T, td *TypedDoc, s *ref.Schema) bool {
		op := td.Doc.Ops[pickN(t, "op", len(td.Doc.Ops))]
		op.Shorthand = false
		op.Vars = append(op.Vars, &ref.VarDef{Name: "unusedvar", Type: &ref.Type{Name: "Int"}})
		return true
	}},
	{"duplicate-variable", "UniqueVariableNames", func(t *rapid.T, td *TypedDoc, s *ref.Schema) bool {
		var ops []*ref.Operation
		for _, op := range td.Doc.Ops {
			if len(op.Vars) > 0 {
				ops = append(ops, op)
			}
		}
		if len(ops) == 0 {
			return false
		}
		// one to three different variables of one operation defined a second time (several errors
		// of one rule in one operation: their order must not depend on anything but the document)
		op := ops[pickN(t, "op", len(ops))]
		n := len(op.Vars)
		k := rapid.IntRange(1, 3).Draw(t, "ndup")
		for i := 0; i < k && i < n; i++ {
			c := *op.Vars[(n-1-i+pickN(t, "from", n))%n]
			op.Vars = append(op.Vars, &c)
		}
		return true
	}},
	{"variable-of-output-type", "VariablesAreInputTypes", func(t *rapid.T, td *TypedDoc, s *ref.Schema) bool {
		for _, op := range td.Doc.Ops {
			if len(op.Vars) > 0 {
				v := op.Vars[pickN(t, "var", len(op.Vars))]
				v.Type = &ref.Type{Name: s.Query}
				v.Default = nil
				return true
			}
		}
		return false
	}},
	{"variable-of-unknown-type", "KnownTypeNames", func(t *rapid.T, td *TypedDoc, s *ref.Schema) bool {
		for _, op := range td.Doc.Ops {
			if len(op.Vars) > 0 {
				v := op.Vars[pickN(t, "var", len(op.Vars))]
				v.Type = &ref.Type{Name: "NoSuchType"}
				v.Default = nil
				return true
			}
		}
		return false
	}},
	{"variable-in-incompatible-position", "VariablesInAllowedPosition", func(t *rapid.T, td *TypedDoc, s *ref.Schema) bool {
		var typed []VarUse
		for _, u := range td.Uses {
			if !u.Untyped { // (inside a custom-scalar literal no type is expected: nothing to be incompatible with)
				typed = append(typed, u)
			}
		}
		if len(typed) == 0 {
			return false
		}
		u := typed[pickN(t, "use", len(typed))]
		name := u.Value.Raw
		how := rapid.IntRange(0, 3).Draw(t, "how")
		changed := false
		for _, op := range td.Doc.Ops {
			for _, v := range op.Vars {
				if v.Name != name {
					continue
				}
				switch how {
				case 3: // nullable at an inner level (list item or inner list) where the position is non-null there
					v.Type = cloneType(v.Type)
					var cands []*ref.Type
					for lt, vt := u.Loc.Elem, v.Type.Elem; lt != nil && vt != nil; lt, vt = lt.Elem, vt.Elem {
						if lt.NonNull && vt.NonNull {
							cands = append(cands, vt)
						}
					}
					if len(cands) == 0 {
						return changed
					}
					cands[pickN(t, "level", len(cands))].NonNull = false
				case 0: // list depth
					v.Type = &ref.Type{Elem: cloneType(v.Type)}
					v.Default = nil
				case 1: // named type
					b := baseOf(v.Type)
					if b.Name == "Boolean" {
						b.Name = "Int"
					} else {
						b.Name = "Boolean"
					}
					v.Default = nil
				default: // nullable without default where the position is non-null
					if !u.Loc.NonNull || u.LocDefault || u.OneOf {
						return false // (a oneOf use is the business of oneof-nullable-variable)
					}
					v.Type = cloneType(v.Type)
					v.Type.NonNull = false
					v.Default = nil
				}
				changed = true
			}
		}
		return changed
	}},
	{"oneof-nullable-variable", "ValuesOfCorrectType", func(t *rapid.T, td *TypedDoc, s *ref.Schema) bool {
		// the single value of a oneOf input object must be a non-nullable variable; a default
		// value does not help (unlike VariablesInAllowedPosition)
		var uses []VarUse
		for _, u := range td.Uses {
			if u.OneOf {
				uses = append(uses, u)
			}
		}
		if len(uses) == 0 {
			return false
		}
		u := uses[pickN(t, "use", len(uses))]
		withDefault := rapid.Bool().Draw(t, "withDefault")
		changed := false
		for _, op := range td.Doc.Ops {
			for _, v := range op.Vars {
				if v.Name != u.Value.Raw {
					continue
				}
				v.Type = cloneType(v.Type)
				v.Type.NonNull = false
				v.Default = nil
				if withDefault {
					nn := *u.Loc
					nn.NonNull = true
					v.Default = ConstOfType(t, func(n string) *ref.TypeDef { return s.Types[n] }, &nn, 1, false)
				}
				changed = true
			}
		}
		return changed
	}},
	{"unknown-fragment", "KnownFragmentNames", func(t *rapid.T, td *TypedDoc, s *ref.Schema) bool {
		st := td.Sets[pickN(t, "set", len(td.Sets))]
		if u := opOfUnit(td, st.Unit); u != nil && u.Op == "subscription" {
			return false
		}
		*st.Set = append(*st.Set, &ref.Selection{Kind: "Spread", Name: "NoSuchFragment"})
		return true
	}},
	{"unused-fragment", "NoUnusedFragments", func(t *rapid.T, td *TypedDoc, s *ref.Schema) bool {
		td.Doc.Frags = append(td.Doc.Frags, &ref.Fragment{Name: "UnusedFragment", TypeCond: s.Query, Sels: []*ref.Selection{leafTypename()}})
		return true
	}},
	{"duplicate-fragment-name", "UniqueFragmentNames", func(t *rapid.T, td *TypedDoc, s *ref.Schema) bool {
		if len(td.Doc.Frags) == 0 {
			return false
		}
		c := *td.Doc.Frags[pickN(t, "frag", len(td.Doc.Frags))]
		td.Doc.Frags = append(td.Doc.Frags, &c)
		return true
	}},
	{"fragment-on-scalar", "FragmentsOnCompositeTypes", func(t *rapid.T, td *TypedDoc, s *ref.Schema) bool {
		st := td.Sets[pickN(t, "set", len(td.Sets))]
		if u := opOfUnit(td, st.Unit); u != nil && u.Op == "subscription" {
			return false
		}
		*st.Set = append(*st.Set, &ref.Selection{Kind: "Inline", TypeCond: rapid.SampledFrom([]string{"String", "Int"}).Draw(t, "scalar"), Sels: []*ref.Selection{leafTypename()}})
		return true
	}},
	{"fragment-definition-on-input-type", "FragmentsOnCompositeTypes", func(t *rapid.T, td *TypedDoc, s *ref.Schema) bool {
		if len(td.Doc.Frags) == 0 {
			return false
		}
		var inputs []string
		for _, n := range s.TypeOrder {
			if d := s.Types[n]; d.Kind == "INPUT_OBJECT" || d.Kind == "ENUM" {
				inputs = append(inputs, n)
			}
		}
		td.Doc.Frags[pickN(t, "frag", len(td.Doc.Frags))].TypeCond = rapid.SampledFrom(inputs).Draw(t, "type")
		return true
	}},
	{"fragment-on-unknown-type", "KnownTypeNames", func(t *rapid.T, td *TypedDoc, s *ref.Schema) bool {
		if len(td.Doc.Frags) > 0 && rapid.Bool().Draw(t, "def") {
			td.Doc.Frags[pickN(t, "frag", len(td.Doc.Frags))].TypeCond = "Tz"
			return true
		}
		st := td.Sets[pickN(t, "set", len(td.Sets))]
		if u := opOfUnit(td, st.Unit); u != nil && u.Op == "subscription" {
			return false
		}
		*st.Set = append(*st.Set, &ref.Selection{Kind: "Inline", TypeCond: "NoSuchType", Sels: []*ref.Selection{leafTypename()}})
		return true
	}},
	{"impossible-spread", "PossibleFragmentSpreads", func(t *rapid.T, td *TypedDoc, s *ref.Schema) bool {
		for _, st := range td.Sets {
			if u := opOfUnit(td, st.Unit); u != nil && u.Op == "subscription" {
				continue
			}
			for _, n := range s.TypeOrder {
				if !s.IsComposite(n) || s.BuiltIn[n] {
					continue
				}
				overlap := false
				pa := s.PossibleObjects(st.Parent)
				for _, x := range s.PossibleObjects(n) {
					if contains(pa, x) {
						overlap = true
					}
				}
				if !overlap {
					*st.Set = append(*st.Set, &ref.Selection{Kind: "Inline", TypeCond: n, Sels: []*ref.Selection{leafTypename()}})
					return true
				}
			}
		}
		return false
	}},
	{"fragment-cycle", "NoFragmentCycles", func(t *rapid.T, td *TypedDoc, s *ref.Schema) bool {
		qs := queryOps(td)
		if len(qs) == 0 {
			return false
		}
		n := rapid.IntRange(1, 3).Draw(t, "len")
		for i := 0; i < n; i++ {
			next := fmt.Sprintf("Cyc%d", (i+1)%n)
			sels := []*ref.Selection{leafTypename(), {Kind: "Spread", Name: next}}
			if rapid.Bool().Draw(t, "nested") {
				sels = []*ref.Selection{leafTypename(), {Kind: "Inline", Sels: []*ref.Selection{{Kind: "Spread", Name: next}}}}
			}
			td.Doc.Frags = append(td.Doc.Frags, &ref.Fragment{Name: fmt.Sprintf("Cyc%d", i), TypeCond: s.Query, Sels: sels})
		}
		qs[0].Sels = append(qs[0].Sels, &ref.Selection{Kind: "Spread", Name: "Cyc0"})
		return true
	}},
	{"conflict-different-fields", "OverlappingFieldsCanBeMerged", func(t *rapid.T, td *TypedDoc, s *ref.Schema) bool {
		for _, st := range td.Sets {
			if u := opOfUnit(td, st.Unit); u != nil && u.Op == "subscription" {
				continue
			}
			lf := leafFieldsOf(s, st.Parent)
			if len(lf) >= 2 {
				*st.Set = append(*st.Set, &ref.Selection{Kind: "Field", Alias: "clash", Name: lf[0].Name}, &ref.Selection{Kind: "Field", Alias: "clash", Name: lf[1].Name})
				return true
			}
		}
		return false
	}},
	{"conflict-different-arguments", "OverlappingFieldsCanBeMerged", func(t *rapid.T, td *TypedDoc, s *ref.Schema) bool {
		// a field with an optional argument selected twice under one key with different literals (scalars, lists, objects)
		lookup := func(n string) *ref.TypeDef { return s.Types[n] }
		for _, st := range td.Sets {
			if u := opOfUnit(td, st.Unit); u != nil && u.Op == "subscription" {
				continue
			}
			for _, f := range leafFieldsOf(s, st.Parent) {
				for _, a := range f.Args {
					var v1, v2 *ref.Value
					nn := *a.Type
					nn.NonNull = true
					for try := 0; try < 6; try++ {
						v1 = ConstOfType(t, lookup, &nn, 2, false)
						v2 = ConstOfType(t, lookup, &nn, 2, false)
						if !sameLiteral(v1, v2) {
							break
						}
					}
					if sameLiteral(v1, v2) {
						continue
					}
					mk := func(v *ref.Value) *ref.Selection {
						sel := &ref.Selection{Kind: "Field", Alias: "clash", Name: f.Name, Args: []*ref.Arg{{Name: a.Name, Value: v}}}
						for _, o := range f.Args {
							if o != a && o.Type.NonNull && o.Default == nil {
								sel.Args = append(sel.Args, &ref.Arg{Name: o.Name, Value: ConstOfType(t, lookup, o.Type, 1, false)})
							}
						}
						return sel
					}
					s1, s2 := mk(v1), mk(v2)
					if len(s1.Args) > 1 {
						s2.Args = append([]*ref.Arg{s2.Args[0]}, s1.Args[1:]...)
					}
					*st.Set = append(*st.Set, s1, s2)
					return true
				}
			}
		}
		return false
	}},
	{"conflict-leaf-types-in-exclusive-branches", "OverlappingFieldsCanBeMerged", func(t *rapid.T, td *TypedDoc, s *ref.Schema) bool {
		return exclusiveBranchConflict(t, td, s, func(a, b *ref.FieldDef) bool {
			return s.IsLeaf(a.Type.Base()) && s.IsLeaf(b.Type.Base()) && a.Type.String() != b.Type.String()
		})
	}},
	{"conflict-leaf-vs-composite-in-exclusive-branches", "OverlappingFieldsCanBeMerged", func(t *rapid.T, td *TypedDoc, s *ref.Schema) bool {
		return exclusiveBranchConflict(t, td, s, func(a, b *ref.FieldDef) bool {
			return s.IsLeaf(a.Type.Base()) != s.IsLeaf(b.Type.Base()) && a.Type.Elem == nil && b.Type.Elem == nil && a.Type.NonNull == b.Type.NonNull
		})
	}},
	{"two-anonymous-operations", "LoneAnonymousOperation", func(t *rapid.T, td *TypedDoc, s *ref.Schema) bool {
		td.Doc.Ops = append(td.Doc.Ops, &ref.Operation{Op: "query", Shorthand: rapid.Bool().Draw(t, "shorthand"), Sels: []*ref.Selection{leafTypename()}})
		return true
	}},
	{"duplicate-operation-name", "UniqueOperationNames", func(t *rapid.T, td *TypedDoc, s *ref.Schema) bool {
		name := ""
		for _, op := range td.Doc.Ops {
			if op.Name != "" {
				name = op.Name
			}
		}
		if name == "" {
			return false
		}
		td.Doc.Ops = append(td.Doc.Ops, &ref.Operation{Op: "query", Name: name, Sels: []*ref.Selection{leafTypename()}})
		return true
	}},
	{"subscription-two-root-fields", "SingleFieldSubscriptions", func(t *rapid.T, td *TypedDoc, s *ref.Schema) bool {
		for _, op := range td.Doc.Ops {
			if op.Op != "subscription" || len(op.Sels) != 1 || op.Sels[0].Kind != "Field" {
				continue
			}
			c := *op.Sels[0]
			switch rapid.IntRange(0, 2).Draw(t, "how") {
			case 0: // two aliases of the same field
				c.Alias = "secondkey"
			case 1: // inside an inline fragment
				c.Alias = "secondkey"
				op.Sels = append(op.Sels, &ref.Selection{Kind: "Inline", Sels: []*ref.Selection{&c}})
				return true
			default:
				lf := leafFieldsOf(s, s.Subscription)
				other := ""
				for _, f := range lf {
					if f.Name != c.Name {
						other = f.Name
					}
				}
				if other == "" {
					c.Alias = "secondkey"
				} else {
					c = ref.Selection{Kind: "Field", Name: other}
				}
			}
			op.Sels = append(op.Sels, &c)
			return true
		}
		return false
	}},
	{"subscription-introspection-root", "SingleFieldSubscriptions", func(t *rapid.T, td *TypedDoc, s *ref.Schema) bool {
		for _, op := range td.Doc.Ops {
			// (an operation with directives may use its variables there: not a target)
			if op.Op == "subscription" && len(op.Directives) == 0 {
				op.Sels = []*ref.Selection{leafTypename()}
				// variables of the operation may now be unused: remove them to keep this the only fault
				op.Vars = nil
				return true
			}
		}
		return false
	}},
	{"operation-without-root-type", "KnownRootType", func(t *rapid.T, td *TypedDoc, s *ref.Schema) bool {
		kind := ""
		if s.Mutation == "" {
			kind = "mutation"
		} else if s.Subscription == "" {
			kind = "subscription"
		} else {
			return false
		}
		name := ""
		if len(td.Doc.Ops) > 0 && td.Doc.Ops[0].Name != "" {
			name = "NoRootOp"
		} else {
			td.Doc.Ops[0].Name = "FirstOp"
			td.Doc.Ops[0].Shorthand = false
			name = "NoRootOp"
		}
		td.Doc.Ops = append(td.Doc.Ops, &ref.Operation{Op: kind, Name: name, Sels: []*ref.Selection{leafTypename()}})
		return true
	}},
	{"introspection-too-deep", "MaxIntrospectionDepth", func(t *rapid.T, td *TypedDoc, s *ref.Schema) bool {
		qs := queryOps(td)
		if len(qs) == 0 {
			return false
		}
		name := func() *ref.Selection { return &ref.Selection{Kind: "Field", Name: "name"} }
		deep := &ref.Selection{Kind: "Field", Name: "fields", Sels: []*ref.Selection{{Kind: "Field", Name: "type", Sels: []*ref.Selection{
			{Kind: "Field", Name: rapid.SampledFrom([]string{"fields", "interfaces", "possibleTypes", "inputFields"}).Draw(t, "l2"), Sels: []*ref.Selection{name(), {Kind: "Field", Name: "ofType", Sels: []*ref.Selection{
				{Kind: "Field", Name: rapid.SampledFrom([]string{"interfaces", "possibleTypes", "inputFields"}).Draw(t, "l3"), Sels: []*ref.Selection{name()}}}}}}}}}}
		if rapid.Bool().Draw(t, "viafragment") {
			td.Doc.Frags = append(td.Doc.Frags, &ref.Fragment{Name: "DeepType", TypeCond: "__Type", Sels: []*ref.Selection{deep}})
			deep = &ref.Selection{Kind: "Spread", Name: "DeepType"}
		}
		root := &ref.Selection{Kind: "Field", Alias: "deepintrospection", Name: "__schema", Sels: []*ref.Selection{{Kind: "Field", Name: "types", Sels: []*ref.Selection{deep}}}}
		if rapid.Bool().Draw(t, "type") {
			root = &ref.Selection{Kind: "Field", Alias: "deepintrospection", Name: "__type", Args: []*ref.Arg{{Name: "name", Value: &ref.Value{Kind: "String", Raw: "Query"}}}, Sels: []*ref.Selection{deep}}
		}
		qs[0].Sels = append(qs[0].Sels, root)
		return true
	}},
}

func hasDirective(d *ref.TypeDef, name string) bool {
	for _, x := range d.Directives {
		if x.Name == name {
			return true
		}
	}
	return false
}

func sameLiteral(a, b *ref.Value) bool {
	if a == nil || b == nil {
		return a == b
	}
	if a.Kind != b.Kind || a.Raw != b.Raw || len(a.Items) != len(b.Items) || len(a.Fields) != len(b.Fields) {
		return false
	}
	for i := range a.Items {
		if !sameLiteral(a.Items[i], b.Items[i]) {
			return false
		}
	}
	// object fields are compared as sets
	for _, fa := range a.Fields {
		ok := false
		for _, fb := range b.Fields {
			if fa.Name == fb.Name && sameLiteral(fa.Value, fb.Value) {
				ok = true
			}
		}
		if !ok {
			return false
		}
	}
	return true
}

// exclusiveBranchConflict adds `... on A { clash: fa } ... on B { clash: fb }` below an abstract
// parent for two different possible objects whose fields satisfy pred.
func exclusiveBranchConflict(t *rapid.T, td *TypedDoc, s *ref.Schema, pred func(a, b *ref.FieldDef) bool) bool {
	argFree := func(f *ref.FieldDef) bool {
		for _, a := range f.Args {
			if a.Type.NonNull && a.Default == nil {
				return false
			}
		}
		return true
	}
	mk := func(obj string, f *ref.FieldDef) *ref.Selection {
		sel := &ref.Selection{Kind: "Field", Alias: "clash", Name: f.Name}
		if s.IsComposite(f.Type.Base()) {
			sel.Sels = []*ref.Selection{leafTypename()}
		}
		return &ref.Selection{Kind: "Inline", TypeCond: obj, Sels: []*ref.Selection{sel}}
	}
	for _, st := range td.Sets {
		d := s.Types[st.Parent]
		if d == nil || (d.Kind != "INTERFACE" && d.Kind != "UNION") {
			continue
		}
		objs := s.PossibleObjects(st.Parent)
		sort.Strings(objs)
		for i := 0; i < len(objs); i++ {
			for j := 0; j < len(objs); j++ {
				if i == j {
					continue
				}
				for _, fa := range s.Types[objs[i]].Fields {
					for _, fb := range s.Types[objs[j]].Fields {
						if argFree(fa) && argFree(fb) && pred(fa, fb) {
							*st.Set = append(*st.Set, mk(objs[i], fa), mk(objs[j], fb))
							return true
						}
					}
				}
			}
		}
	}
	return false
}

func DocFaultNames() []string {
	var out []string
	for _, f := range docFaultOps {
		out = append(out, f.name)
	}
	return out
}

func NumDocFaults() int { return len(docFaultOps) }

// ApplyDocFault injects fault idx (or the next one that has a target).
func ApplyDocFault(t *rapid.T, td *TypedDoc, s *ref.Schema, idx int) (DocFault, bool) {
	for k := 0; k < len(docFaultOps); k++ {
		op := docFaultOps[(idx+k)%len(docFaultOps)]
		if tryDocFault(op.name, op.f, t, td, s) {
			return DocFault{Name: op.name, Rule: op.rule}, true
		}
	}
	return DocFault{}, false
}

// rareDocFaults have a target in few documents; drawing the fault uniformly leaves them with a
// handful of cases per run, so a third of the faulty documents try these first.
var rareDocFaults = []string{"oneof-nullable-variable", "oneof-wrong-key-count-or-null", "missing-required-input-field", "unknown-input-field", "duplicate-input-field",
	"conflict-leaf-vs-composite-in-exclusive-branches", "conflict-leaf-types-in-exclusive-branches", "subscription-introspection-root", "subscription-two-root-fields",
	"int-outside-32-bits", "float-not-finite", "fragment-definition-on-input-type", "undefined-variable-nested", "duplicate-fragment-name", "variable-in-incompatible-position"}

// ApplyRareDocFault injects the first rarely applicable fault that has a target, starting at a
// drawn position of the list.
func ApplyRareDocFault(t *rapid.T, td *TypedDoc, s *ref.Schema) (DocFault, bool) {
	start := rapid.IntRange(0, len(rareDocFaults)-1).Draw(t, "rare")
	for k := 0; k < len(rareDocFaults); k++ {
		name := rareDocFaults[(start+k)%len(rareDocFaults)]
		for _, op := range docFaultOps {
			if op.name == name && tryDocFault(op.name, op.f, t, td, s) {
				return DocFault{Name: op.name, Rule: op.rule}, true
			}
		}
	}
	return DocFault{}, false
}

// tryDocFault runs one operator; an operator that reports "no target" must have left the
// document alone (otherwise a later operator works on sites that are no longer part of it).
func tryDocFault(name string, f func(*rapid.T, *TypedDoc, *ref.Schema) bool, t *rapid.T, td *TypedDoc, s *ref.Schema) bool {
	before := JoinPlain(QueryLexemes(td.Doc, Canon))
	if f(t, td, s) {
		return true
	}
	if JoinPlain(QueryLexemes(td.Doc, Canon)) != before {
		panic("harness: fault operator " + name + " changed the document although it reports no target")
	}
	return false
}

// ApplyDocFaultNamed injects the named fault if it has a target.
func ApplyDocFaultNamed(t *rapid.T, td *TypedDoc, s *ref.Schema, name string) bool {
	for _, op := range docFaultOps {
		if op.name == name {
			return tryDocFault(op.name, op.f, t, td, s)
		}
	}
	return false
}
