package gen

import (
	"fmt"
	"strings"

	"pgregory.net/rapid"

	"verif/harness/ref"
)

// G4: rendering of model trees to text with free placement of ignored tokens.

// Chooser abstracts the source of choices so that the same code renders canonically (always
// 0) or randomly (drawn from rapid).
type Chooser func(label string, n int) int

func Canon(string, int) int { return 0 }

func Rand(t *rapid.T) Chooser {
	return func(label string, n int) int {
		if n <= 1 {
			return 0
		}
		return rapid.IntRange(0, n-1).Draw(t, label)
	}
}

// QuoteString renders s as a quoted GraphQL string. style 0: minimal escapes; 1: control and
// non-ASCII BMP characters as \uXXXX; 2: every escapable character escaped, '/' as \/.
func QuoteString(s string, style int) string {
	var sb strings.Builder
	sb.WriteByte('"')
	for _, r := range s {
		switch {
		case r == '"':
			sb.WriteString(`\"`)
		case r == '\\':
			sb.WriteString(`\\`)
		case r == '\n':
			sb.WriteString(`\n`)
		case r == '\r':
			sb.WriteString(`\r`)
		case r == '\t':
			if style == 0 {
				sb.WriteByte('\t')
			} else {
				sb.WriteString(`\t`)
			}
		case r == '\b' && style != 1:
			sb.WriteString(`\b`)
		case r == '\f' && style != 1:
			sb.WriteString(`\f`)
		case r == '/' && style == 2:
			sb.WriteString(`\/`)
		case r < 0x20:
			fmt.Fprintf(&sb, `\u%04x`, r)
		case r >= 0x7f && r <= 0xFFFF && style == 1 && !(r >= 0xD800 && r <= 0xDFFF):
			fmt.Fprintf(&sb, `\u%04X`, r)
		default:
			sb.WriteRune(r)
		}
	}
	sb.WriteByte('"')
	return sb.String()
}

// BlockLexeme returns a block-string lexeme denoting v per the specification, or "" if the
// forms tried cannot represent it. form selects among the candidates that work.
func BlockLexeme(v string, form int) string {
	for _, r := range v {
		if r < 0x20 && r != '\t' && r != '\n' {
			return ""
		}
	}
	body := strings.ReplaceAll(v, `"""`, `\"""`)
	lines := strings.Split(body, "\n")
	cands := []string{
		`"""` + body + `"""`,
		"\"\"\"\n" + body + "\n\"\"\"",
		"\"\"\"\n    " + strings.Join(lines, "\n    ") + "\n  \"\"\"",
		"\"\"\"" + lines[0] + func() string {
			if len(lines) == 1 {
				return ""
			}
			return "\n\t" + strings.Join(lines[1:], "\n\t")
		}() + "\n\"\"\"",
		"\"\"\"\r\n  " + strings.Join(lines, "\r\n  ") + "\r\"\"\"",
	}
	var ok []string
	for _, c := range cands {
		res := ref.Lex([]rune(c+" z"), ref.LexOpts{})
		if res.OK && len(res.Toks) == 3 && res.Toks[0].Kind == ref.BlockString && res.Toks[0].Value == v && res.Toks[0].End == len([]rune(c)) {
			ok = append(ok, c)
		}
	}
	if len(ok) == 0 {
		return ""
	}
	return ok[form%len(ok)]
}

type lexer struct {
	out    []string
	choose Chooser
}

func (l *lexer) p(s ...string) { l.out = append(l.out, s...) }

func (l *lexer) str(s string) {
	l.p(QuoteString(s, l.choose("strstyle", 3)))
}

// description: either form when representable
func (l *lexer) desc(s string) {
	if s == "" {
		return
	}
	if l.choose("descform", 2) == 1 {
		if b := BlockLexeme(s, l.choose("blockform", 5)); b != "" {
			l.p(b)
			return
		}
	}
	l.str(s)
}

func (l *lexer) value(v *ref.Value) {
	switch v.Kind {
	case "Variable":
		l.p("$", v.Raw)
	case "String":
		l.str(v.Raw)
	case "Block":
		b := BlockLexeme(v.Raw, l.choose("blockform", 5))
		if b == "" {
			panic("gen: block value not representable: " + fmt.Sprintf("%q", v.Raw))
		}
		l.p(b)
	case "List":
		l.p("[")
		for _, it := range v.Items {
			l.value(it)
		}
		l.p("]")
	case "Object":
		l.p("{")
		for _, f := range v.Fields {
			l.p(f.Name, ":")
			l.value(f.Value)
		}
		l.p("}")
	default:
		l.p(v.Raw)
	}
}

func (l *lexer) typ(t *ref.Type) {
	if t.Elem != nil {
		l.p("[")
		l.typ(t.Elem)
		l.p("]")
	} else {
		l.p(t.Name)
	}
	if t.NonNull {
		l.p("!")
	}
}

func (l *lexer) args(as []*ref.Arg) {
	if len(as) == 0 {
		return
	}
	l.p("(")
	for _, a := range as {
		l.p(a.Name, ":")
		l.value(a.Value)
	}
	l.p(")")
}

func (l *lexer) dirs(ds []*ref.Directive) {
	for _, d := range ds {
		l.p("@", d.Name)
		l.args(d.Args)
	}
}

func (l *lexer) vars(vs []*ref.VarDef) {
	if len(vs) == 0 {
		return
	}
	l.p("(")
	for _, v := range vs {
		l.p("$", v.Name, ":")
		l.typ(v.Type)
		if v.Default != nil {
			l.p("=")
			l.value(v.Default)
		}
		l.dirs(v.Directives)
	}
	l.p(")")
}

func (l *lexer) sels(ss []*ref.Selection) {
	l.p("{")
	for _, s := range ss {
		switch s.Kind {
		case "Field":
			if s.Alias != "" {
				l.p(s.Alias, ":")
			}
			l.p(s.Name)
			l.args(s.Args)
			l.dirs(s.Directives)
			if len(s.Sels) > 0 {
				l.sels(s.Sels)
			}
		case "Spread":
			l.p("...", s.Name)
			l.dirs(s.Directives)
		case "Inline":
			l.p("...")
			if s.TypeCond != "" {
				l.p("on", s.TypeCond)
			}
			l.dirs(s.Directives)
			l.sels(s.Sels)
		}
	}
	l.p("}")
}

// QueryLexemes flattens an executable document into its lexemes in source order.
func QueryLexemes(d *ref.Doc, choose Chooser) []string {
	l := &lexer{choose: choose}
	oi, fi := 0, 0
	order := d.Order
	if order == "" {
		order = strings.Repeat("o", len(d.Ops)) + strings.Repeat("f", len(d.Frags))
	}
	for _, c := range order {
		if c == 'o' {
			op := d.Ops[oi]
			oi++
			if !op.Shorthand {
				l.p(op.Op)
				if op.Name != "" {
					l.p(op.Name)
				}
				l.vars(op.Vars)
				l.dirs(op.Directives)
			}
			l.sels(op.Sels)
		} else {
			f := d.Frags[fi]
			fi++
			l.p("fragment", f.Name)
			l.vars(f.Vars)
			l.p("on", f.TypeCond)
			l.dirs(f.Directives)
			l.sels(f.Sels)
		}
	}
	return l.out
}

func (l *lexer) argDefs(as []*ref.ArgDef) {
	if len(as) == 0 {
		return
	}
	l.p("(")
	for _, a := range as {
		l.desc(a.Desc)
		l.p(a.Name, ":")
		l.typ(a.Type)
		if a.Default != nil {
			l.p("=")
			l.value(a.Default)
		}
		l.dirs(a.Directives)
	}
	l.p(")")
}

func (l *lexer) schemaDef(s *ref.SchemaDef, ext bool) {
	if ext {
		l.p("extend")
	} else {
		l.desc(s.Desc)
	}
	l.p("schema")
	l.dirs(s.Directives)
	if len(s.Ops) > 0 {
		l.p("{")
		for _, o := range s.Ops {
			l.p(o.Op, ":", o.Type)
		}
		l.p("}")
	}
}

var keywordOfKind = map[string]string{"SCALAR": "scalar", "OBJECT": "type", "INTERFACE": "interface", "UNION": "union", "ENUM": "enum", "INPUT_OBJECT": "input"}

func (l *lexer) typeDef(d *ref.TypeDef, ext bool) {
	if ext {
		l.p("extend")
	} else {
		l.desc(d.Desc)
	}
	l.p(keywordOfKind[d.Kind], d.Name)
	if len(d.Interfaces) > 0 {
		l.p("implements")
		if l.choose("leadamp", 3) == 1 {
			l.p("&")
		}
		for i, n := range d.Interfaces {
			if i > 0 {
				l.p("&")
			}
			l.p(n)
		}
	}
	l.dirs(d.Directives)
	if len(d.Types) > 0 {
		l.p("=")
		if l.choose("leadpipe", 3) == 1 {
			l.p("|")
		}
		for i, n := range d.Types {
			if i > 0 {
				l.p("|")
			}
			l.p(n)
		}
	}
	if len(d.Fields) > 0 {
		l.p("{")
		for _, f := range d.Fields {
			l.desc(f.Desc)
			l.p(f.Name)
			l.argDefs(f.Args)
			l.p(":")
			l.typ(f.Type)
			if f.Default != nil {
				l.p("=")
				l.value(f.Default)
			}
			l.dirs(f.Directives)
		}
		l.p("}")
	}
	if len(d.EnumValues) > 0 {
		l.p("{")
		for _, e := range d.EnumValues {
			l.desc(e.Desc)
			l.p(e.Name)
			l.dirs(e.Directives)
		}
		l.p("}")
	}
}

func (l *lexer) directiveDef(d *ref.DirectiveDef) {
	l.desc(d.Desc)
	l.p("directive", "@", d.Name)
	l.argDefs(d.Args)
	if d.Repeatable {
		l.p("repeatable")
	}
	l.p("on")
	if l.choose("leadpipe", 3) == 1 {
		l.p("|")
	}
	for i, loc := range d.Locations {
		if i > 0 {
			l.p("|")
		}
		l.p(loc)
	}
}

// SchemaPieces renders every top-level item of the tree separately, in tree order.
func SchemaPieces(st SchemaTree, choose Chooser) [][]string {
	var out [][]string
	for _, it := range st.Order {
		l := &lexer{choose: choose}
		switch it.List {
		case "schema":
			l.schemaDef(st.Doc.Schemas[it.Idx], false)
		case "schemaext":
			l.schemaDef(st.Doc.SchemaExts[it.Idx], true)
		case "directive":
			l.directiveDef(st.Doc.Directives[it.Idx])
		case "def":
			l.typeDef(st.Doc.Defs[it.Idx], false)
		case "ext":
			l.typeDef(st.Doc.Exts[it.Idx], true)
		}
		out = append(out, l.out)
	}
	return out
}

func SchemaLexemes(st SchemaTree, choose Chooser) []string {
	var out []string
	for _, p := range SchemaPieces(st, choose) {
		out = append(out, p...)
	}
	return out
}

// ---------------------------------------------------------------- joining lexemes

func isNameByte(c byte) bool {
	return c == '_' || (c >= '0' && c <= '9') || (c >= 'a' && c <= 'z') || (c >= 'A' && c <= 'Z')
}

func singlePunct(s string) bool { return len(s) == 1 && strings.ContainsAny(s, "!$&():=@[]{}|") }

// CanGlue reports whether b may follow a without any separator and still lex as two tokens.
func CanGlue(a, b string) bool {
	if singlePunct(a) || singlePunct(b) {
		return true
	}
	if a == "..." && (b[0] == '_' || (b[0] >= 'a' && b[0] <= 'z') || (b[0] >= 'A' && b[0] <= 'Z')) {
		return true
	}
	if b == "..." && isNameByte(a[len(a)-1]) && !(a[0] == '-' || (a[0] >= '0' && a[0] <= '9')) {
		return true
	}
	return false
}

// JoinPlain joins lexemes with single spaces.
func JoinPlain(lex []string) string { return strings.Join(lex, " ") }

// JoinMinimal joins with a separator only where required.
func JoinMinimal(lex []string) string {
	var sb strings.Builder
	for i, l := range lex {
		if i > 0 && !CanGlue(lex[i-1], l) {
			sb.WriteByte(' ')
		}
		sb.WriteString(l)
	}
	return sb.String()
}

var ignoredPieces = []string{" ", "  ", "\t", ",", "\n", "\r", "\r\n", "\uFEFF", "\n\n", " , "}
var commentPieces = []string{"#", "# c", "#é\U0001F600 x", "#\"", "#{}", "#...", "# \t\uFEFF"}
var terminators = []string{"\n", "\r", "\r\n"}

// IgnoredRun draws a (possibly empty unless need) run of ignored text, optionally with comments.
func IgnoredRun(t *rapid.T, need bool, comments bool) string {
	var sb strings.Builder
	n := rapid.IntRange(0, 3).Draw(t, "nign")
	if need && n == 0 {
		n = 1
	}
	for i := 0; i < n; i++ {
		if comments && rapid.IntRange(0, 5).Draw(t, "cmt") == 0 {
			sb.WriteString(rapid.SampledFrom(commentPieces).Draw(t, "comment"))
			sb.WriteString(rapid.SampledFrom(terminators).Draw(t, "term"))
			continue
		}
		sb.WriteString(rapid.SampledFrom(ignoredPieces).Draw(t, "ign"))
	}
	return sb.String()
}

// JoinRandom joins lexemes with random ignored text (G4).
func JoinRandom(t *rapid.T, lex []string, comments bool) string {
	var sb strings.Builder
	sb.WriteString(IgnoredRun(t, false, comments))
	for i, l := range lex {
		if i > 0 {
			sb.WriteString(IgnoredRun(t, !CanGlue(lex[i-1], l), comments))
		}
		sb.WriteString(l)
	}
	sb.WriteString(IgnoredRun(t, false, comments))
	return sb.String()
}
