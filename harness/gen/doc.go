package gen

import (
	"encoding/json"
	"fmt"
	"sort"

	"pgregory.net/rapid"

	"verif/harness/ref"
)

// G8: executable documents that are valid by construction for a merged schema, with a record
// of typed sites that the fault operators (G9) use.

type FieldSite struct {
	Sel    *ref.Selection
	Parent string
	Def    *ref.FieldDef
	Set    *[]*ref.Selection // the selection list that contains Sel
	Unit   string            // "op:<index>" or "frag:<name>"
}

type ArgSite struct {
	Arg   *ref.Arg
	Def   *ref.ArgDef
	Args  *[]*ref.Arg
	Owner string // "field" or "directive"
	Unit  string
}

type ValueSite struct {
	Value *ref.Value // the literal (mutated in place by faults)
	Type  *ref.Type  // expected type
	Unit  string
}

type DirSite struct {
	List *[]*ref.Directive
	Loc  string
	Unit string
}

type SetSite struct {
	Set    *[]*ref.Selection
	Parent string
	Unit   string
	Depth  int
}

type VarUse struct {
	Value      *ref.Value
	Loc        *ref.Type
	Unit       string
	LocDefault bool // the position declares a default value
	Nested     bool // the use sits inside a list or input object literal
	OneOf      bool // the use is the single value of a oneOf input object
	Untyped    bool // the use sits inside a custom-scalar literal: no declared type at that position (Loc is the variable's own type)
}

type TypedDoc struct {
	Doc    *ref.Doc
	Fields []FieldSite
	Args   []ArgSite
	Values []ValueSite
	Dirs   []DirSite
	Sets   []SetSite
	Uses   []VarUse
	Vars   map[string]*ref.VarDef // the global variable pool
}

type fragInfo struct {
	def  *ref.Fragment
	vars map[string]bool
	top  map[string]string // response key -> signature of its top-level fields
}

type docGen struct {
	t      *rapid.T
	s      *ref.Schema
	out    *TypedDoc
	frags  []*fragInfo
	nvar   int
	nalias int
	unit   string
	used   map[string]bool // variables used by the unit under construction
	nfrag  int
}

func (g *docGen) chance(label string, n int) bool {
	return rapid.IntRange(0, n-1).Draw(g.t, label) == 0
}

func sig(name string, args []*ref.Arg, ty *ref.Type) string {
	b, _ := json.Marshal(args)
	return name + "|" + string(b) + "|" + ty.String()
}

func (g *docGen) lookup(n string) *ref.TypeDef { return g.s.Types[n] }

// variable returns a variable usable at a position of type ty (creating one if needed).
func (g *docGen) variable(ty *ref.Type, locHasDefault bool, strict bool) *ref.Value {
	// reuse an existing variable of exactly this type sometimes
	var names []string
	for n, v := range g.out.Vars {
		if ref.TypeEqual(v.Type, ty) {
			names = append(names, n)
		}
	}
	sort.Strings(names)
	if len(names) > 0 && g.chance("reusevar", 2) {
		n := rapid.SampledFrom(names).Draw(g.t, "varname")
		g.used[n] = true
		return &ref.Value{Kind: "Variable", Raw: n}
	}
	g.nvar++
	v := &ref.VarDef{Name: fmt.Sprintf("v%d", g.nvar), Type: cloneType(ty)}
	shape := rapid.IntRange(0, 5).Draw(g.t, "varshape")
	if strict {
		shape = 5
	}
	switch shape {
	case 0: // stricter: non-null variable at a nullable position
		v.Type.NonNull = true
	case 1: // nullable variable with a default at a non-null position
		if ty.NonNull {
			v.Type.NonNull = false
			v.Default = ConstOfType(g.t, g.lookup, ty, 2, false)
		}
	case 2: // nullable variable at a non-null position that itself has a default
		if ty.NonNull && locHasDefault {
			v.Type.NonNull = false
		}
	case 3:
		v.Default = ConstOfType(g.t, g.lookup, v.Type, 2, true)
	}
	g.out.Vars[v.Name] = v
	g.used[v.Name] = true
	return &ref.Value{Kind: "Variable", Raw: v.Name}
}

// valueOf generates a (possibly non-constant) value for type ty.
func (g *docGen) valueOf(ty *ref.Type, depth int, locHasDefault bool) *ref.Value {
	if g.chance("usevar", 4) {
		val := g.variable(ty, locHasDefault, false)
		g.out.Uses = append(g.out.Uses, VarUse{val, ty, g.unit, locHasDefault, false, false, false})
		return val
	}
	v := g.literal(ty, depth)
	g.out.Values = append(g.out.Values, ValueSite{v, ty, g.unit})
	return v
}

// literal: like ConstOfType but may nest variables inside lists and input objects.
func (g *docGen) literal(ty *ref.Type, depth int) *ref.Value {
	if !ty.NonNull && g.chance("null", 8) {
		return &ref.Value{Kind: "Null", Raw: "null"}
	}
	if ty.Elem != nil {
		if ty.Elem.Elem == nil && !isCustomScalar(g.lookup, ty.Elem.Name) && g.chance("coerce", 5) {
			inner := *ty.Elem
			inner.NonNull = true
			return g.literal(&inner, depth)
		}
		v := &ref.Value{Kind: "List"}
		for i, n := 0, rapid.IntRange(0, 2).Draw(g.t, "nlist"); i < n; i++ {
			if depth > 0 && g.chance("nestedvar", 5) {
				val := g.variable(ty.Elem, false, false)
				g.out.Uses = append(g.out.Uses, VarUse{val, ty.Elem, g.unit, false, true, false, false})
				v.Items = append(v.Items, val)
				continue
			}
			item := g.literal(ty.Elem, depth-1)
			g.out.Values = append(g.out.Values, ValueSite{item, ty.Elem, g.unit})
			v.Items = append(v.Items, item)
		}
		return v
	}
	def := g.s.Types[ty.Name]
	if def != nil && def.Kind == "INPUT_OBJECT" {
		v := &ref.Value{Kind: "Object"}
		oneOf := false
		for _, d := range def.Directives {
			if d.Name == "oneOf" {
				oneOf = true
			}
		}
		if oneOf {
			f := rapid.SampledFrom(def.Fields).Draw(g.t, "oneoffield")
			if depth <= 0 {
				f = def.Fields[0]
			}
			nn := *f.Type
			nn.NonNull = true
			if g.chance("oneofvar", 3) {
				val := g.variable(&nn, false, true)
				g.out.Uses = append(g.out.Uses, VarUse{val, &nn, g.unit, false, true, true, false})
				v.Fields = append(v.Fields, &ref.ObjField{Name: f.Name, Value: val})
				return v
			}
			item := g.literal(&nn, depth-1)
			g.out.Values = append(g.out.Values, ValueSite{item, &nn, g.unit})
			v.Fields = append(v.Fields, &ref.ObjField{Name: f.Name, Value: item})
			return v
		}
		for _, f := range def.Fields {
			required := f.Type.NonNull && f.Default == nil
			if !(required || (depth > 0 && rapid.Bool().Draw(g.t, "optfield"))) {
				continue
			}
			if depth > 0 && g.chance("fieldvar", 5) {
				val := g.variable(f.Type, f.Default != nil, false)
				g.out.Uses = append(g.out.Uses, VarUse{val, f.Type, g.unit, f.Default != nil, true, false, false})
				v.Fields = append(v.Fields, &ref.ObjField{Name: f.Name, Value: val})
				continue
			}
			var item *ref.Value
			if depth <= 0 && !f.Type.NonNull {
				item = &ref.Value{Kind: "Null", Raw: "null"}
			} else {
				item = g.literal(f.Type, depth-1)
			}
			g.out.Values = append(g.out.Values, ValueSite{item, f.Type, g.unit})
			v.Fields = append(v.Fields, &ref.ObjField{Name: f.Name, Value: item})
		}
		return v
	}
	if def != nil && def.Kind == "SCALAR" && !isBuiltinScalar(ty.Name) && depth > 0 && g.chance("customwithvars", 3) {
		// custom scalar: a list or object literal with variables inside (no declared type in there)
		return g.customScalarLiteral(2)
	}
	if def != nil && def.Kind == "SCALAR" && !isBuiltinScalar(ty.Name) {
		// custom scalar: any literal; integers stay within what every consumer can convert
		return rapid.SampledFrom([]*ref.Value{{Kind: "Int", Raw: "7"}, {Kind: "String", Raw: "2020-01-01"}, {Kind: "Boolean", Raw: "true"}, {Kind: "Float", Raw: "1.5"},
			{Kind: "Enum", Raw: "ANY"}, {Kind: "List", Items: []*ref.Value{{Kind: "Int", Raw: "1"}, {Kind: "String", Raw: "x"}}},
			{Kind: "Object", Fields: []*ref.ObjField{{Name: "k", Value: &ref.Value{Kind: "Int", Raw: "1"}}, {Name: "l", Value: &ref.Value{Kind: "List"}}}}}).Draw(g.t, "custom")
	}
	if (ty.Name == "Float" || ty.Name == "ID") && g.chance("bigint", 12) {
		// an integer literal beyond 64 bits is a Float / an ID like any other
		return &ref.Value{Kind: "Int", Raw: rapid.SampledFrom([]string{"99999999999999999999", "-9223372036854775809", "123456789012345678901234567890"}).Draw(g.t, "big")}
	}
	return ConstOfType(g.t, g.lookup, &ref.Type{Name: ty.Name, NonNull: true}, depth, false)
}

// customScalarLiteral: a list or object literal for a custom scalar whose contents are literals,
// nested lists / objects (distinct keys) and variables of simple types.
func (g *docGen) customScalarLiteral(depth int) *ref.Value {
	inner := func(d int) *ref.Value {
		switch k := rapid.IntRange(0, 5).Draw(g.t, "csitem"); {
		case k <= 1:
			vt := &ref.Type{Name: rapid.SampledFrom([]string{"Int", "String", "Boolean", "ID"}).Draw(g.t, "csvartype")}
			if g.chance("csvarlist", 4) {
				vt = &ref.Type{Elem: vt}
			}
			val := g.variable(vt, false, true)
			g.out.Uses = append(g.out.Uses, VarUse{Value: val, Loc: vt, Unit: g.unit, Nested: true, Untyped: true})
			return val
		case k == 2 && d > 0:
			return g.customScalarLiteral(d - 1)
		case k == 3:
			return &ref.Value{Kind: "String", Raw: "x"}
		case k == 4:
			return &ref.Value{Kind: "Boolean", Raw: "true"}
		}
		return &ref.Value{Kind: "Int", Raw: "2"}
	}
	if rapid.Bool().Draw(g.t, "cslist") {
		v := &ref.Value{Kind: "List"}
		for i, n := 0, rapid.IntRange(1, 3).Draw(g.t, "csn"); i < n; i++ {
			v.Items = append(v.Items, inner(depth))
		}
		return v
	}
	v := &ref.Value{Kind: "Object"}
	for i, n := 0, rapid.IntRange(1, 3).Draw(g.t, "csn"); i < n; i++ {
		v.Fields = append(v.Fields, &ref.ObjField{Name: []string{"ids", "k", "meta"}[i], Value: inner(depth)})
	}
	return v
}

func isBuiltinScalar(n string) bool {
	switch n {
	case "Int", "Float", "String", "Boolean", "ID":
		return true
	}
	return false
}

func (g *docGen) arguments(defs []*ref.ArgDef, owner string) []*ref.Arg {
	var out []*ref.Arg
	for _, d := range defs {
		required := d.Type.NonNull && d.Default == nil
		if !required && !g.chance("optarg", 2) {
			continue
		}
		a := &ref.Arg{Name: d.Name, Value: g.valueOf(d.Type, 2, d.Default != nil)}
		out = append(out, a)
	}
	// argument order is free
	if len(out) > 1 && g.chance("shuffleargs", 3) {
		out[0], out[len(out)-1] = out[len(out)-1], out[0]
	}
	return out
}

func (g *docGen) recordArgs(args *[]*ref.Arg, defs []*ref.ArgDef, owner string) {
	for _, a := range *args {
		for _, d := range defs {
			if d.Name == a.Name {
				g.out.Args = append(g.out.Args, ArgSite{a, d, args, owner, g.unit})
			}
		}
	}
}

// directives for an executable location
func (g *docGen) directives(loc string) []*ref.Directive {
	var out []*ref.Directive
	if !g.chance("hasdirs", 4) {
		return nil
	}
	var names []string
	for n, d := range g.s.Directives {
		if contains(d.Locations, loc) && n != "defer" {
			names = append(names, n)
		}
	}
	sort.Strings(names)
	used := map[string]bool{}
	for _, n := range names {
		if !g.chance("usedir", 2) {
			continue
		}
		d := g.s.Directives[n]
		reps := 1
		if d.Repeatable && g.chance("repeat", 2) {
			reps = 2
		}
		for i := 0; i < reps; i++ {
			ad := &ref.Directive{Name: n}
			ad.Args = g.arguments(d.Args, "directive")
			g.recordArgs(&ad.Args, d.Args, "directive")
			out = append(out, ad)
		}
		used[n] = true
	}
	return out
}

func (g *docGen) possibleOverlap(a, b string) bool {
	pa, pb := g.s.PossibleObjects(a), g.s.PossibleObjects(b)
	for _, x := range pa {
		if contains(pb, x) {
			return true
		}
	}
	return false
}

func (g *docGen) compositeNames() []string {
	var out []string
	for _, n := range g.s.TypeOrder {
		if g.s.IsComposite(n) && !g.s.BuiltIn[n] {
			out = append(out, n)
		}
	}
	sort.Strings(out)
	return out
}

// selectionSet fills *dst with a non-empty selection set for composite parent type.
// scope maps response keys already present at this merge level to their signature.
func (g *docGen) selectionSet(dst *[]*ref.Selection, parent string, depth int, scope map[string]string, isSubscriptionRoot bool) {
	pd := g.s.Types[parent]
	n := rapid.IntRange(1, 4).Draw(g.t, "nsel")
	if isSubscriptionRoot {
		n = 1
	}
	var fields []*ref.FieldDef
	if pd.Kind == "OBJECT" || pd.Kind == "INTERFACE" {
		fields = append(fields, pd.Fields...)
	}
	g.out.Sets = append(g.out.Sets, SetSite{dst, parent, g.unit, depth})
	addField := func(fd *ref.FieldDef) bool {
		base := fd.Type.Base()
		composite := g.s.IsComposite(base)
		if composite && depth <= 0 {
			return false
		}
		sel := &ref.Selection{Kind: "Field", Name: fd.Name}
		sel.Args = g.arguments(fd.Args, "field")
		key := fd.Name
		sg := sig(fd.Name, sel.Args, fd.Type)
		if prev, ok := scope[key]; (ok && (prev != sg || composite)) || g.chance("alias", 6) {
			g.nalias++
			sel.Alias = fmt.Sprintf("k%d", g.nalias)
			key = sel.Alias
		}
		scope[key] = sg
		g.recordArgs(&sel.Args, fd.Args, "field")
		if !isSubscriptionRoot {
			sel.Directives = g.directives("FIELD")
			if len(sel.Directives) > 0 {
				g.out.Dirs = append(g.out.Dirs, DirSite{&sel.Directives, "FIELD", g.unit})
			}
		}
		if composite {
			g.selectionSet(&sel.Sels, base, depth-1, map[string]string{}, false)
		}
		*dst = append(*dst, sel)
		g.out.Fields = append(g.out.Fields, FieldSite{sel, parent, fd, dst, g.unit})
		return true
	}
	for i := 0; i < n; i++ {
		k := rapid.IntRange(0, 9).Draw(g.t, "selkind")
		if isSubscriptionRoot {
			k = 0
		}
		switch {
		case k <= 4 && len(fields) > 0:
			addField(rapid.SampledFrom(fields).Draw(g.t, "field"))
		case k == 5:
			if prev, ok := scope["__typename"]; ok && prev != "__typename" {
				continue
			}
			scope["__typename"] = "__typename"
			*dst = append(*dst, &ref.Selection{Kind: "Field", Name: "__typename"})
		case k == 6 && depth > 0:
			// inline fragment, with or without type condition
			inl := &ref.Selection{Kind: "Inline"}
			target := parent
			if !g.chance("nocond", 4) {
				var over []string
				for _, c := range g.compositeNames() {
					if g.possibleOverlap(parent, c) {
						over = append(over, c)
					}
				}
				target = rapid.SampledFrom(over).Draw(g.t, "inlinetype")
				inl.TypeCond = target
			}
			inl.Directives = g.directives("INLINE_FRAGMENT")
			if len(inl.Directives) > 0 {
				g.out.Dirs = append(g.out.Dirs, DirSite{&inl.Directives, "INLINE_FRAGMENT", g.unit})
			}
			// fields of an inline fragment merge with the enclosing set: share the scope
			g.selectionSet(&inl.Sels, target, depth-1, scope, false)
			*dst = append(*dst, inl)
		case k == 7 && depth > 0:
			if sp := g.spread(parent, depth, scope); sp != nil {
				*dst = append(*dst, sp)
			}
		case k == 8 && depth > 0 && (pd.Kind == "INTERFACE" || pd.Kind == "UNION"):
			// same response key in mutually exclusive object branches with equal leaf types
			objs := g.s.PossibleObjects(parent)
			if len(objs) < 2 {
				continue
			}
			byType := map[string][][2]string{} // type string -> (object, field)
			for _, o := range objs {
				for _, f := range g.s.Types[o].Fields {
					if g.s.IsLeaf(f.Type.Base()) && len(f.Args) == 0 {
						byType[f.Type.String()] = append(byType[f.Type.String()], [2]string{o, f.Name})
					}
				}
			}
			var keys []string
			for k, l := range byType {
				if len(l) >= 2 {
					keys = append(keys, k)
				}
			}
			sort.Strings(keys)
			if len(keys) == 0 {
				continue
			}
			l := byType[rapid.SampledFrom(keys).Draw(g.t, "sharedtype")]
			a := l[0]
			var b [2]string
			for _, x := range l[1:] {
				if x[0] != a[0] {
					b = x
				}
			}
			if b[0] == "" {
				continue
			}
			g.nalias++
			key := fmt.Sprintf("x%d", g.nalias)
			scope[key] = "exclusive"
			for _, br := range [][2]string{a, b} {
				*dst = append(*dst, &ref.Selection{Kind: "Inline", TypeCond: br[0], Sels: []*ref.Selection{{Kind: "Field", Alias: key, Name: br[1]}}})
			}
		case k == 9 && parent == g.s.Query && depth > 0 && !isSubscriptionRoot:
			g.nalias++
			if rapid.Bool().Draw(g.t, "schemaortype") {
				*dst = append(*dst, &ref.Selection{Kind: "Field", Alias: fmt.Sprintf("i%d", g.nalias), Name: "__schema", Sels: []*ref.Selection{
					{Kind: "Field", Name: "queryType", Sels: []*ref.Selection{{Kind: "Field", Name: "name"}, {Kind: "Field", Name: "fields", Sels: []*ref.Selection{{Kind: "Field", Name: "name"}}}}},
					{Kind: "Field", Name: "directives", Sels: []*ref.Selection{{Kind: "Field", Name: "name"}, {Kind: "Field", Name: "locations"}}}}})
			} else {
				tn := rapid.SampledFrom(g.s.TypeOrder).Draw(g.t, "typename")
				*dst = append(*dst, &ref.Selection{Kind: "Field", Alias: fmt.Sprintf("i%d", g.nalias), Name: "__type", Args: []*ref.Arg{{Name: "name", Value: &ref.Value{Kind: "String", Raw: tn}}},
					Sels: []*ref.Selection{{Kind: "Field", Name: "kind"}, {Kind: "Field", Name: "possibleTypes", Sels: []*ref.Selection{{Kind: "Field", Name: "name"}, {Kind: "Field", Name: "interfaces", Sels: []*ref.Selection{{Kind: "Field", Name: "name"}}}}}}})
			}
		}
	}
	if len(*dst) == 0 {
		// a leaf is always available
		for _, fd := range fields {
			if g.s.IsLeaf(fd.Type.Base()) && addField(fd) {
				break
			}
		}
	}
	if len(*dst) == 0 {
		if isSubscriptionRoot && len(fields) > 0 {
			// the subscription root must select exactly one ordinary field
			fd := fields[0]
			sel := &ref.Selection{Kind: "Field", Name: fd.Name, Args: g.arguments(fd.Args, "field")}
			if g.s.IsComposite(fd.Type.Base()) {
				sel.Sels = []*ref.Selection{{Kind: "Field", Name: "__typename"}}
			}
			*dst = append(*dst, sel)
		} else {
			*dst = append(*dst, &ref.Selection{Kind: "Field", Name: "__typename"})
			scope["__typename"] = "__typename"
		}
	}
}

// spread returns a fragment spread applicable within parent, reusing or creating a fragment.
func (g *docGen) spread(parent string, depth int, scope map[string]string) *ref.Selection {
	var usable []*fragInfo
	for _, f := range g.frags {
		if !g.possibleOverlap(parent, f.def.TypeCond) {
			continue
		}
		ok := true
		for k := range f.top {
			if _, exists := scope[k]; exists {
				ok = false // a key shared across a fragment boundary could conflict deeper down
			}
		}
		if ok {
			usable = append(usable, f)
		}
	}
	var fi *fragInfo
	if len(usable) > 0 && g.chance("reusefrag", 2) {
		fi = usable[rapid.IntRange(0, len(usable)-1).Draw(g.t, "whichfrag")]
	} else if g.nfrag < 4 {
		// create a new fragment on a type overlapping the parent; its fields are generated in a copy of
		// the current scope so that they merge with (or are aliased away from) what is already selected
		var over []string
		for _, c := range g.compositeNames() {
			if g.possibleOverlap(parent, c) {
				over = append(over, c)
			}
		}
		tc := rapid.SampledFrom(over).Draw(g.t, "fragtype")
		saveUnit, saveUsed := g.unit, g.used
		g.nfrag++
		name := fmt.Sprintf("F%d", g.nfrag)
		g.unit = "frag:" + name
		g.used = map[string]bool{}
		top := map[string]string{}
		for k, v := range scope {
			top[k] = v
		}
		f := &ref.Fragment{Name: name, TypeCond: tc}
		f.Directives = g.directives("FRAGMENT_DEFINITION")
		if len(f.Directives) > 0 {
			g.out.Dirs = append(g.out.Dirs, DirSite{&f.Directives, "FRAGMENT_DEFINITION", g.unit})
		}
		g.selectionSet(&f.Sels, tc, depth-1, top, false)
		fi = &fragInfo{def: f, vars: g.used, top: top}
		g.frags = append(g.frags, fi)
		g.out.Doc.Frags = append(g.out.Doc.Frags, f)
		g.unit, g.used = saveUnit, saveUsed
	}
	if fi == nil {
		return nil
	}
	for k, sg := range fi.top {
		scope[k] = sg
	}
	for v := range fi.vars {
		g.used[v] = true
	}
	sp := &ref.Selection{Kind: "Spread", Name: fi.def.Name}
	sp.Directives = g.directives("FRAGMENT_SPREAD")
	if len(sp.Directives) > 0 {
		g.out.Dirs = append(g.out.Dirs, DirSite{&sp.Directives, "FRAGMENT_SPREAD", g.unit})
	}
	return sp
}

// TypedDocument generates a valid document for schema s.
func TypedDocument(t *rapid.T, s *ref.Schema) *TypedDoc {
	g := &docGen{t: t, s: s, out: &TypedDoc{Doc: &ref.Doc{}, Vars: map[string]*ref.VarDef{}}}
	var kinds []string
	kinds = append(kinds, "query", "query")
	if s.Mutation != "" {
		kinds = append(kinds, "mutation")
	}
	if s.Subscription != "" {
		kinds = append(kinds, "subscription")
	}
	nops := rapid.IntRange(1, 3).Draw(t, "nops")
	for i := 0; i < nops; i++ {
		kind := rapid.SampledFrom(kinds).Draw(t, "opkind")
		op := &ref.Operation{Op: kind}
		root := s.Query
		loc := "QUERY"
		switch kind {
		case "mutation":
			root, loc = s.Mutation, "MUTATION"
		case "subscription":
			root, loc = s.Subscription, "SUBSCRIPTION"
		}
		if nops > 1 || g.chance("named", 2) {
			op.Name = fmt.Sprintf("Op%d", i+1)
		} else if kind == "query" && g.chance("shorthand", 2) {
			op.Shorthand = true
		}
		g.unit = fmt.Sprintf("op:%d", i)
		g.used = map[string]bool{}
		if !op.Shorthand {
			op.Directives = g.directives(loc)
			if len(op.Directives) > 0 {
				g.out.Dirs = append(g.out.Dirs, DirSite{&op.Directives, loc, g.unit})
			}
		}
		g.selectionSet(&op.Sels, root, 3, map[string]string{}, kind == "subscription")
		if op.Shorthand && len(g.used) > 0 {
			op.Shorthand = false
		}
		var names []string
		for n := range g.used {
			names = append(names, n)
		}
		sort.Strings(names)
		for _, n := range names {
			vd := *g.out.Vars[n]
			vd.Type = cloneType(vd.Type) // every operation owns its definitions
			if nops > 1 && g.chance("varydefault", 3) {
				// operations that share a fragment may declare its variables differently: here with
				// and there without a default value (dropped only where no use needs it)
				if vd.Default == nil {
					vd.Default = ConstOfType(g.t, g.lookup, vd.Type, 2, false)
				} else if g.defaultNotNeeded(n, vd.Type) {
					vd.Default = nil
				}
			}
			// directives on variable definitions
			save := g.used
			g.used = map[string]bool{}
			vd.Directives = g.constDirectives("VARIABLE_DEFINITION")
			g.used = save
			op.Vars = append(op.Vars, &vd)
		}
		g.out.Doc.Ops = append(g.out.Doc.Ops, op)
	}
	g.dropUnusedFragments()
	g.out.Doc.Order = ""
	return g.out
}

// defaultNotNeeded: no use of $n recorded so far depends on the variable having a default value.
func (g *docGen) defaultNotNeeded(n string, ty *ref.Type) bool {
	if ty.NonNull {
		return true
	}
	for _, u := range g.out.Uses {
		if u.Value.Raw == n && u.Loc != nil && u.Loc.NonNull {
			return false
		}
	}
	return true
}

// constDirectives: directives whose arguments contain no variables.
func (g *docGen) constDirectives(loc string) []*ref.Directive {
	var out []*ref.Directive
	if !g.chance("hasvardirs", 5) {
		return nil
	}
	var names []string
	for n, d := range g.s.Directives {
		if contains(d.Locations, loc) {
			names = append(names, n)
		}
	}
	sort.Strings(names)
	for _, n := range names {
		d := g.s.Directives[n]
		ad := &ref.Directive{Name: n}
		for _, a := range d.Args {
			if (a.Type.NonNull && a.Default == nil) || g.chance("optarg", 2) {
				ad.Args = append(ad.Args, &ref.Arg{Name: a.Name, Value: ConstOfType(g.t, g.lookup, a.Type, 2, true)})
			}
		}
		out = append(out, ad)
	}
	return out
}

// dropUnusedFragments removes fragments that no operation reaches (and sites inside them).
func (g *docGen) dropUnusedFragments() {
	reach := map[string]bool{}
	byName := map[string]*ref.Fragment{}
	for _, f := range g.out.Doc.Frags {
		byName[f.Name] = f
	}
	var walk func(ss []*ref.Selection)
	walk = func(ss []*ref.Selection) {
		for _, s := range ss {
			if s.Kind == "Spread" && !reach[s.Name] {
				reach[s.Name] = true
				if f := byName[s.Name]; f != nil {
					walk(f.Sels)
				}
			}
			walk(s.Sels)
		}
	}
	for _, o := range g.out.Doc.Ops {
		walk(o.Sels)
	}
	var keep []*ref.Fragment
	for _, f := range g.out.Doc.Frags {
		if reach[f.Name] {
			keep = append(keep, f)
		}
	}
	g.out.Doc.Frags = keep
	dead := func(unit string) bool {
		return len(unit) > 5 && unit[:5] == "frag:" && !reach[unit[5:]]
	}
	var fs []FieldSite
	for _, x := range g.out.Fields {
		if !dead(x.Unit) {
			fs = append(fs, x)
		}
	}
	g.out.Fields = fs
	var as []ArgSite
	for _, x := range g.out.Args {
		if !dead(x.Unit) {
			as = append(as, x)
		}
	}
	g.out.Args = as
	var vs []ValueSite
	for _, x := range g.out.Values {
		if !dead(x.Unit) {
			vs = append(vs, x)
		}
	}
	g.out.Values = vs
	var ds []DirSite
	for _, x := range g.out.Dirs {
		if !dead(x.Unit) {
			ds = append(ds, x)
		}
	}
	g.out.Dirs = ds
	var ss []SetSite
	for _, x := range g.out.Sets {
		if !dead(x.Unit) {
			ss = append(ss, x)
		}
	}
	g.out.Sets = ss
	var us []VarUse
	for _, x := range g.out.Uses {
		if !dead(x.Unit) {
			us = append(us, x)
		}
	}
	g.out.Uses = us
}

// BlindDocument generates a syntactically valid document whose names are drawn from the
// schema's name pools without regard to types (G9 "type-blind").
func BlindDocument(t *rapid.T, s *ref.Schema) *ref.Doc {
	var fieldPool, typePool, argPool, dirPool, enumPool []string
	seen := map[string]bool{}
	add := func(l *[]string, n string) {
		if !seen[n+"\x00"+fmt.Sprint(l)] {
			seen[n+"\x00"+fmt.Sprint(l)] = true
			*l = append(*l, n)
		}
	}
	for _, n := range s.TypeOrder {
		d := s.Types[n]
		if s.BuiltIn[n] && len(n) > 2 && n[:2] == "__" {
			continue
		}
		add(&typePool, n)
		for _, f := range d.Fields {
			add(&fieldPool, f.Name)
			for _, a := range f.Args {
				add(&argPool, a.Name)
			}
		}
		for _, e := range d.EnumValues {
			add(&enumPool, e.Name)
		}
	}
	for n, d := range s.Directives {
		add(&dirPool, n)
		for _, a := range d.Args {
			add(&argPool, a.Name)
		}
	}
	sort.Strings(dirPool)
	dirPool = append(dirPool, "skip", "include", "nosuchdirective")
	fieldPool = append(fieldPool, "__typename", "__schema", "__type", "nosuch")
	typePool = append(typePool, "NoSuchType")
	argPool = append(argPool, "if", "nosucharg")
	if len(enumPool) == 0 {
		enumPool = []string{"A"}
	}
	vars := []string{"v1", "v2", "v3"}
	frags := []string{"F1", "F2", "F3"}
	var value func(depth int) *ref.Value
	value = func(depth int) *ref.Value {
		max := 9
		if depth <= 0 {
			max = 7
		}
		switch rapid.IntRange(0, max).Draw(t, "bvk") {
		case 0:
			return &ref.Value{Kind: "Variable", Raw: rapid.SampledFrom(vars).Draw(t, "bvar")}
		case 1:
			return &ref.Value{Kind: "Int", Raw: rapid.SampledFrom([]string{"0", "1", "2147483648", "99999999999999999999"}).Draw(t, "bint")}
		case 2:
			return &ref.Value{Kind: "Float", Raw: "1.5"}
		case 3:
			return &ref.Value{Kind: "String", Raw: rapid.SampledFrom([]string{"s", "RED", ""}).Draw(t, "bstr")}
		case 4:
			return &ref.Value{Kind: "Boolean", Raw: "true"}
		case 5:
			return &ref.Value{Kind: "Null", Raw: "null"}
		case 6, 7:
			return &ref.Value{Kind: "Enum", Raw: rapid.SampledFrom(enumPool).Draw(t, "benum")}
		case 8:
			v := &ref.Value{Kind: "List"}
			for i, n := 0, rapid.IntRange(0, 2).Draw(t, "bnl"); i < n; i++ {
				v.Items = append(v.Items, value(depth-1))
			}
			return v
		default:
			v := &ref.Value{Kind: "Object"}
			for i, n := 0, rapid.IntRange(0, 2).Draw(t, "bno"); i < n; i++ {
				v.Fields = append(v.Fields, &ref.ObjField{Name: rapid.SampledFrom(fieldPool).Draw(t, "bof"), Value: value(depth - 1)})
			}
			return v
		}
	}
	args := func() []*ref.Arg {
		var out []*ref.Arg
		if rapid.IntRange(0, 2).Draw(t, "bhasargs") != 0 {
			return nil
		}
		for i, n := 0, rapid.IntRange(1, 2).Draw(t, "bnargs"); i < n; i++ {
			out = append(out, &ref.Arg{Name: rapid.SampledFrom(argPool).Draw(t, "barg"), Value: value(2)})
		}
		return out
	}
	dirs := func() []*ref.Directive {
		var out []*ref.Directive
		if rapid.IntRange(0, 3).Draw(t, "bhasdirs") != 0 {
			return nil
		}
		for i, n := 0, rapid.IntRange(1, 2).Draw(t, "bndirs"); i < n; i++ {
			out = append(out, &ref.Directive{Name: rapid.SampledFrom(dirPool).Draw(t, "bdir"), Args: args()})
		}
		return out
	}
	var sels func(depth int) []*ref.Selection
	sels = func(depth int) []*ref.Selection {
		var out []*ref.Selection
		for i, n := 0, rapid.IntRange(1, 3).Draw(t, "bnsel"); i < n; i++ {
			switch k := rapid.IntRange(0, 5).Draw(t, "bsk"); {
			case k <= 2 || depth <= 0:
				f := &ref.Selection{Kind: "Field", Name: rapid.SampledFrom(fieldPool).Draw(t, "bfield"), Args: args(), Directives: dirs()}
				if rapid.IntRange(0, 3).Draw(t, "balias") == 0 {
					f.Alias = rapid.SampledFrom(fieldPool).Draw(t, "baliasn")
				}
				if depth > 0 && rapid.Bool().Draw(t, "bsub") {
					f.Sels = sels(depth - 1)
				}
				out = append(out, f)
			case k == 3:
				out = append(out, &ref.Selection{Kind: "Spread", Name: rapid.SampledFrom(frags).Draw(t, "bspread"), Directives: dirs()})
			default:
				in := &ref.Selection{Kind: "Inline", Directives: dirs(), Sels: sels(depth - 1)}
				if rapid.Bool().Draw(t, "bcond") {
					in.TypeCond = rapid.SampledFrom(typePool).Draw(t, "btc")
				}
				out = append(out, in)
			}
		}
		return out
	}
	d := &ref.Doc{}
	kinds := []string{"query", "query", "mutation", "subscription"}
	for i, n := 0, rapid.IntRange(1, 2).Draw(t, "bnops"); i < n; i++ {
		op := &ref.Operation{Op: rapid.SampledFrom(kinds).Draw(t, "bop")}
		if n > 1 || rapid.Bool().Draw(t, "bnamed") {
			op.Name = fmt.Sprintf("Op%d", rapid.IntRange(1, 2).Draw(t, "bopname"))
		}
		for j, m := 0, rapid.IntRange(0, 2).Draw(t, "bnvars"); j < m; j++ {
			ty := &ref.Type{Name: rapid.SampledFrom(typePool).Draw(t, "bvt"), NonNull: rapid.Bool().Draw(t, "bvnn")}
			if rapid.IntRange(0, 3).Draw(t, "bvlist") == 0 {
				ty = &ref.Type{Elem: ty}
			}
			v := &ref.VarDef{Name: rapid.SampledFrom(vars).Draw(t, "bvn"), Type: ty}
			if rapid.IntRange(0, 2).Draw(t, "bvd") == 0 {
				v.Default = constOnly(value(1))
			}
			op.Vars = append(op.Vars, v)
		}
		op.Directives = dirs()
		op.Sels = sels(3)
		d.Ops = append(d.Ops, op)
	}
	for i, n := 0, rapid.IntRange(0, 3).Draw(t, "bnfrags"); i < n; i++ {
		d.Frags = append(d.Frags, &ref.Fragment{Name: rapid.SampledFrom(frags).Draw(t, "bfn"), TypeCond: rapid.SampledFrom(typePool).Draw(t, "bftc"), Directives: dirs(), Sels: sels(2)})
	}
	return d
}

// constOnly replaces variables by null so that the value is a constant.
func constOnly(v *ref.Value) *ref.Value {
	if v.Kind == "Variable" {
		return &ref.Value{Kind: "Null", Raw: "null"}
	}
	for i, it := range v.Items {
		v.Items[i] = constOnly(it)
	}
	for _, f := range v.Fields {
		f.Value = constOnly(f.Value)
	}
	return v
}
