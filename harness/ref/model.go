package ref

// Plain model types for syntax trees. Generators build them, the reference parser builds them
// from text, and package proj projects the library's ASTs into them, so "faithful tree" is
// equality of these values.

type Value struct {
	Kind   string      `json:"k"` // Variable Int Float String Block Boolean Null Enum List Object
	Raw    string      `json:"r,omitempty"`
	Items  []*Value    `json:"i,omitempty"`
	Fields []*ObjField `json:"f,omitempty"`
}

type ObjField struct {
	Name  string `json:"n"`
	Value *Value `json:"v"`
}

type Type struct {
	Name    string `json:"n,omitempty"`
	Elem    *Type  `json:"e,omitempty"`
	NonNull bool   `json:"nn,omitempty"`
}

func (t *Type) String() string {
	if t == nil {
		return "<nil>"
	}
	s := t.Name
	if t.Elem != nil {
		s = "[" + t.Elem.String() + "]"
	}
	if t.NonNull {
		s += "!"
	}
	return s
}

func (t *Type) Base() string {
	for t.Elem != nil {
		t = t.Elem
	}
	return t.Name
}

type Arg struct {
	Name  string `json:"n"`
	Value *Value `json:"v"`
}

type Directive struct {
	Name string `json:"n"`
	Args []*Arg `json:"a,omitempty"`
}

type VarDef struct {
	Name       string       `json:"n"`
	Type       *Type        `json:"t"`
	Default    *Value       `json:"d,omitempty"`
	Directives []*Directive `json:"dirs,omitempty"`
}

type Selection struct {
	Kind       string       `json:"k"` // Field Spread Inline
	Alias      string       `json:"al,omitempty"`
	Name       string       `json:"n,omitempty"` // field name or fragment name
	TypeCond   string       `json:"tc,omitempty"`
	Args       []*Arg       `json:"a,omitempty"`
	Directives []*Directive `json:"dirs,omitempty"`
	Sels       []*Selection `json:"s,omitempty"`
}

type Operation struct {
	Op         string       `json:"op"` // query mutation subscription
	Shorthand  bool         `json:"sh,omitempty"`
	Name       string       `json:"n,omitempty"`
	Vars       []*VarDef    `json:"vars,omitempty"`
	Directives []*Directive `json:"dirs,omitempty"`
	Sels       []*Selection `json:"s"`
}

type Fragment struct {
	Name       string       `json:"n"`
	Vars       []*VarDef    `json:"vars,omitempty"`
	TypeCond   string       `json:"tc"`
	Directives []*Directive `json:"dirs,omitempty"`
	Sels       []*Selection `json:"s"`
}

type Doc struct {
	Ops   []*Operation `json:"ops,omitempty"`
	Frags []*Fragment  `json:"frags,omitempty"`
	// Order records the interleaving of operations ('o') and fragments ('f') in the source.
	Order string `json:"order,omitempty"`
}

// ---- type system

type OpType struct {
	Op   string `json:"op"`
	Type string `json:"t"`
}

type SchemaDef struct {
	Desc       string       `json:"desc,omitempty"`
	Directives []*Directive `json:"dirs,omitempty"`
	Ops        []*OpType    `json:"ops,omitempty"`
}

type ArgDef struct {
	Desc       string       `json:"desc,omitempty"`
	Name       string       `json:"n"`
	Type       *Type        `json:"t"`
	Default    *Value       `json:"d,omitempty"`
	Directives []*Directive `json:"dirs,omitempty"`
}

type FieldDef struct {
	Desc       string       `json:"desc,omitempty"`
	Name       string       `json:"n"`
	Args       []*ArgDef    `json:"args,omitempty"`
	Type       *Type        `json:"t"`
	Default    *Value       `json:"d,omitempty"` // input fields only
	Directives []*Directive `json:"dirs,omitempty"`
}

type EnumVal struct {
	Desc       string       `json:"desc,omitempty"`
	Name       string       `json:"n"`
	Directives []*Directive `json:"dirs,omitempty"`
}

type TypeDef struct {
	Kind       string       `json:"k"` // SCALAR OBJECT INTERFACE UNION ENUM INPUT_OBJECT
	Desc       string       `json:"desc,omitempty"`
	Name       string       `json:"n"`
	Interfaces []string     `json:"impl,omitempty"`
	Directives []*Directive `json:"dirs,omitempty"`
	Fields     []*FieldDef  `json:"f,omitempty"`
	Types      []string     `json:"u,omitempty"`
	EnumValues []*EnumVal   `json:"ev,omitempty"`
}

type DirectiveDef struct {
	Desc       string    `json:"desc,omitempty"`
	Name       string    `json:"n"`
	Args       []*ArgDef `json:"args,omitempty"`
	Repeatable bool      `json:"rep,omitempty"`
	Locations  []string  `json:"loc"`
}

type SchemaDoc struct {
	Schemas    []*SchemaDef    `json:"schema,omitempty"`
	SchemaExts []*SchemaDef    `json:"schemaext,omitempty"`
	Directives []*DirectiveDef `json:"directives,omitempty"`
	Defs       []*TypeDef      `json:"defs,omitempty"`
	Exts       []*TypeDef      `json:"exts,omitempty"`
}
