// Package ref holds the reference models (oracles). Nothing here imports the code under test.
//
// lexer.go: a direct transcription of the October 2021 lexical grammar (spec appendix B.1/B.2)
// over code points. Written for clarity, not speed.
package ref

import (
	"strings"
)

type Kind string

const (
	EOF         Kind = "EOF"
	Bang        Kind = "Bang"
	Dollar      Kind = "Dollar"
	Amp         Kind = "Amp"
	ParenL      Kind = "ParenL"
	ParenR      Kind = "ParenR"
	Spread      Kind = "Spread"
	Colon       Kind = "Colon"
	Equals      Kind = "Equals"
	At          Kind = "At"
	BracketL    Kind = "BracketL"
	BracketR    Kind = "BracketR"
	BraceL      Kind = "BraceL"
	BraceR      Kind = "BraceR"
	Pipe        Kind = "Pipe"
	Name        Kind = "Name"
	Int         Kind = "Int"
	Float       Kind = "Float"
	String      Kind = "String"
	BlockString Kind = "BlockString"
	Comment     Kind = "Comment"
)

// Tok is a lexical token with its extent in code points.
type Tok struct {
	Kind  Kind
	Start int // offset of the first code point of the lexeme
	End   int // offset one past the last code point of the lexeme
	// Value: name, number lexeme, decoded string, block string value, comment text incl '#'.
	// Empty for punctuators and EOF.
	Value string
	// ValueExact is false when the value cannot be represented (an escape denoting a UTF-16
	// surrogate); only kind and extent are then meaningful.
	ValueExact bool
}

// LexOpts switch on documented deviations of the implementation (known findings). The zero
// value is the grammar of the specification.
type LexOpts struct {
	NoNumberLookahead          bool // a number may be followed by NameStart, digit or '.'
	BlockIndentCountsFirstLine bool // first line of a block string takes part in the common indent
	BlockTakesLastThreeQuotes  bool // a closing run of n>=3 quotes is content(n-3) + terminator
}

// LexResult: Toks are the tokens recognised (comments included); when OK the last one is EOF.
// When !OK no token is admitted at FailStart (offset of the first code point after ignored
// characters); FailEnd is the offset at which this reference gives up.
type LexResult struct {
	Toks      []Tok
	OK        bool
	FailStart int
	FailEnd   int
	Reason    string
}

func isSourceChar(r rune) bool {
	return r == 0x9 || r == 0xA || r == 0xD || r >= 0x20
}
func isNameStart(r rune) bool {
	return r == '_' || (r >= 'a' && r <= 'z') || (r >= 'A' && r <= 'Z')
}
func isDigit(r rune) bool    { return r >= '0' && r <= '9' }
func isNameCont(r rune) bool { return isNameStart(r) || isDigit(r) }

var punct = map[rune]Kind{'!': Bang, '$': Dollar, '&': Amp, '(': ParenL, ')': ParenR, ':': Colon, '=': Equals,
	'@': At, '[': BracketL, ']': BracketR, '{': BraceL, '}': BraceR, '|': Pipe}

// Lex tokenises src completely.
func Lex(src []rune, o LexOpts) LexResult {
	var res LexResult
	i := 0
	n := len(src)
	at := func(k int) rune {
		if k < n {
			return src[k]
		}
		return -1
	}
	fail := func(start, end int, why string) LexResult {
		res.OK = false
		res.FailStart = start
		res.FailEnd = end
		res.Reason = why
		return res
	}
	for {
		// Ignored: BOM, whitespace, line terminators, commas (comments are returned as tokens)
		for i < n {
			r := src[i]
			if r == 0xFEFF || r == '\t' || r == ' ' || r == '\n' || r == '\r' || r == ',' {
				i++
				continue
			}
			break
		}
		if i >= n {
			res.Toks = append(res.Toks, Tok{Kind: EOF, Start: n, End: n, ValueExact: true})
			res.OK = true
			return res
		}
		start := i
		r := src[i]
		switch {
		case punct[r] != "":
			res.Toks = append(res.Toks, Tok{Kind: punct[r], Start: start, End: start + 1, ValueExact: true})
			i++
		case r == '.':
			if at(i+1) == '.' && at(i+2) == '.' {
				res.Toks = append(res.Toks, Tok{Kind: Spread, Start: start, End: start + 3, ValueExact: true})
				i += 3
			} else {
				return fail(start, start, "lone dot")
			}
		case r == '#':
			j := i + 1
			for j < n && isSourceChar(src[j]) && src[j] != '\n' && src[j] != '\r' {
				j++
			}
			res.Toks = append(res.Toks, Tok{Kind: Comment, Start: start, End: j, Value: string(src[start:j]), ValueExact: true})
			i = j
		case isNameStart(r):
			j := i + 1
			for j < n && isNameCont(src[j]) {
				j++
			}
			res.Toks = append(res.Toks, Tok{Kind: Name, Start: start, End: j, Value: string(src[start:j]), ValueExact: true})
			i = j
		case r == '-' || isDigit(r):
			j := i
			if src[j] == '-' {
				j++
			}
			if at(j) == '0' {
				j++
				if isDigit(at(j)) {
					return fail(start, j, "digit after leading zero")
				}
			} else if isDigit(at(j)) {
				for isDigit(at(j)) {
					j++
				}
			} else {
				return fail(start, j, "no digit in number")
			}
			isFloat := false
			if at(j) == '.' {
				// FractionalPart :: . Digit+
				if !isDigit(at(j + 1)) {
					if o.NoNumberLookahead {
						// the implementation commits to a fraction as soon as it sees the dot
						return fail(start, j+1, "no digit after dot")
					}
					return fail(start, j+1, "no digit after dot")
				}
				isFloat = true
				j++
				for isDigit(at(j)) {
					j++
				}
			}
			if at(j) == 'e' || at(j) == 'E' {
				k := j + 1
				if at(k) == '+' || at(k) == '-' {
					k++
				}
				if !isDigit(at(k)) {
					// 'e' is a NameStart: with the look-ahead restriction no number token ends here
					return fail(start, k, "no digit in exponent")
				}
				isFloat = true
				for isDigit(at(k)) {
					k++
				}
				j = k
			}
			if !o.NoNumberLookahead {
				if nx := at(j); isDigit(nx) || nx == '.' || (nx >= 0 && isNameStart(nx)) {
					return fail(start, j, "number followed by digit, dot or name start")
				}
			}
			k := Int
			if isFloat {
				k = Float
			}
			res.Toks = append(res.Toks, Tok{Kind: k, Start: start, End: j, Value: string(src[start:j]), ValueExact: true})
			i = j
		case r == '"':
			if at(i+1) == '"' && at(i+2) == '"' {
				tok, end, ok, why := lexBlock(src, i, o)
				if !ok {
					return fail(start, end, why)
				}
				res.Toks = append(res.Toks, tok)
				i = end
			} else {
				tok, end, ok, why := lexString(src, i)
				if !ok {
					return fail(start, end, why)
				}
				res.Toks = append(res.Toks, tok)
				i = end
			}
		default:
			return fail(start, start, "no token starts with this character")
		}
	}
}

func hexVal(r rune) int {
	switch {
	case r >= '0' && r <= '9':
		return int(r - '0')
	case r >= 'a' && r <= 'f':
		return int(r-'a') + 10
	case r >= 'A' && r <= 'F':
		return int(r-'A') + 10
	}
	return -1
}

// lexString: `"` StringCharacter* `"` starting at src[i] == '"' (not a block string).
func lexString(src []rune, i int) (Tok, int, bool, string) {
	n := len(src)
	var sb strings.Builder
	exact := true
	j := i + 1
	for {
		if j >= n {
			return Tok{}, j, false, "unterminated string"
		}
		r := src[j]
		switch {
		case r == '"':
			return Tok{Kind: String, Start: i, End: j + 1, Value: sb.String(), ValueExact: exact}, j + 1, true, ""
		case r == '\n' || r == '\r':
			return Tok{}, j, false, "line terminator in string"
		case r == '\\':
			if j+1 >= n {
				return Tok{}, j + 1, false, "truncated escape"
			}
			e := src[j+1]
			switch e {
			case '"', '\\', '/':
				sb.WriteRune(e)
				j += 2
			case 'b':
				sb.WriteByte('\b')
				j += 2
			case 'f':
				sb.WriteByte('\f')
				j += 2
			case 'n':
				sb.WriteByte('\n')
				j += 2
			case 'r':
				sb.WriteByte('\r')
				j += 2
			case 't':
				sb.WriteByte('\t')
				j += 2
			case 'u':
				v := 0
				for k := 0; k < 4; k++ {
					if j+2+k >= n {
						return Tok{}, n, false, "truncated unicode escape"
					}
					h := hexVal(src[j+2+k])
					if h < 0 {
						return Tok{}, j + 2 + k, false, "bad hex digit in unicode escape"
					}
					v = v<<4 | h
				}
				if v >= 0xD800 && v <= 0xDFFF {
					exact = false
					sb.WriteRune(0xFFFD)
				} else {
					sb.WriteRune(rune(v))
				}
				j += 6
			default:
				return Tok{}, j + 1, false, "unknown escape"
			}
		case !isSourceChar(r):
			return Tok{}, j, false, "control character in string"
		default:
			sb.WriteRune(r)
			j++
		}
	}
}

// lexBlock: `"""` BlockStringCharacter* `"""` starting at src[i:i+3] == `"""`.
func lexBlock(src []rune, i int, o LexOpts) (Tok, int, bool, string) {
	n := len(src)
	var raw []rune
	j := i + 3
	for {
		if j >= n {
			return Tok{}, n, false, "unterminated block string"
		}
		r := src[j]
		if r == '"' && j+2 < n && src[j+1] == '"' && src[j+2] == '"' {
			if o.BlockTakesLastThreeQuotes {
				k := j
				for k < n && src[k] == '"' {
					k++
				}
				for m := 0; m < k-j-3; m++ {
					raw = append(raw, '"')
				}
				// the implementation reports the extent as if the token ended after the first three quotes
				return Tok{Kind: BlockString, Start: i, End: j + 3, Value: BlockStringValue(string(raw), o.BlockIndentCountsFirstLine), ValueExact: true}, k, true, ""
			}
			return Tok{Kind: BlockString, Start: i, End: j + 3, Value: BlockStringValue(string(raw), o.BlockIndentCountsFirstLine), ValueExact: true}, j + 3, true, ""
		}
		if r == '\\' && j+3 < n && src[j+1] == '"' && src[j+2] == '"' && src[j+3] == '"' {
			raw = append(raw, '"', '"', '"')
			j += 4
			continue
		}
		if !isSourceChar(r) {
			return Tok{}, j, false, "control character in block string"
		}
		raw = append(raw, r)
		j++
	}
}

// BlockStringValue is the algorithm of spec section 2.9.4 (String Value, "BlockStringValue").
func BlockStringValue(raw string, countFirstLine bool) string {
	// split on LineTerminator: \r\n, \n, \r
	var lines []string
	cur := strings.Builder{}
	rs := []rune(raw)
	for k := 0; k < len(rs); k++ {
		switch rs[k] {
		case '\r':
			if k+1 < len(rs) && rs[k+1] == '\n' {
				k++
			}
			lines = append(lines, cur.String())
			cur.Reset()
		case '\n':
			lines = append(lines, cur.String())
			cur.Reset()
		default:
			cur.WriteRune(rs[k])
		}
	}
	lines = append(lines, cur.String())

	indentOf := func(l string) (int, bool) { // (indent, onlyWhitespace)
		for i, r := range l {
			if r != ' ' && r != '\t' {
				return i, false
			}
		}
		return len(l), true
	}
	common := -1
	for idx, l := range lines {
		if idx == 0 && !countFirstLine {
			continue
		}
		ind, blank := indentOf(l)
		if !blank && (common < 0 || ind < common) {
			common = ind
		}
	}
	if common > 0 {
		for idx := 1; idx < len(lines); idx++ {
			if len(lines[idx]) < common {
				lines[idx] = ""
			} else {
				lines[idx] = lines[idx][common:]
			}
		}
	}
	for len(lines) > 0 {
		if _, blank := indentOf(lines[0]); blank {
			lines = lines[1:]
		} else {
			break
		}
	}
	for len(lines) > 0 {
		if _, blank := indentOf(lines[len(lines)-1]); blank {
			lines = lines[:len(lines)-1]
		} else {
			break
		}
	}
	return strings.Join(lines, "\n")
}

// ---------------------------------------------------------------- positions (O2)

// LineCol maps a code point offset to (line, column), both 1-based; LF, CR and CRLF each end
// one line; columns count code points.
func LineCol(src []rune, off int) (int, int) {
	line, lineStart := 1, 0
	for i := 0; i < off && i < len(src); i++ {
		switch src[i] {
		case '\n':
			line++
			lineStart = i + 1
		case '\r':
			if i+1 < len(src) && src[i+1] == '\n' {
				if i+1 >= off {
					// offset points between CR and LF: still on the old line as far as
					// "terminators before the offset" goes; treat CR as having ended it
					line++
					lineStart = i + 1
					return line, off - lineStart + 1
				}
				i++
			}
			line++
			lineStart = i + 1
		}
	}
	return line, off - lineStart + 1
}

// Lines returns the number of lines of src and the length in code points of each.
func Lines(src []rune) []int {
	var lens []int
	cur := 0
	for i := 0; i < len(src); i++ {
		switch src[i] {
		case '\n':
			lens = append(lens, cur)
			cur = 0
		case '\r':
			if i+1 < len(src) && src[i+1] == '\n' {
				i++
			}
			lens = append(lens, cur)
			cur = 0
		default:
			cur++
		}
	}
	lens = append(lens, cur)
	return lens
}
