package ref

// validate.go: O6, the reference validator for executable documents: section 5 of the
// October 2021 specification as a set of reason-coded rules over (merged Schema, Doc), plus
// the graphql-js introspection depth rule. Independent of the code under test.

import (
	"fmt"
	"math"
	"math/big"
	"sort"
	"strings"
)

type DocViolation struct {
	Rule string
	Msg  string
}

func (v DocViolation) String() string { return v.Rule + ": " + v.Msg }

// DocOpts switch on recorded deviations of the implementation (known findings).
type DocOpts struct {
	NoInt32Range                bool // an Int literal within 64 but outside 32 bits is accepted for Int
	EmptyObjectForLeaf          bool // `{}` is accepted where a built-in scalar or an enum is expected
	SameValueShallow            bool // arguments of same-named fields are compared by kind and raw text only (lists/objects always equal)
	LeafVsCompositeNoConflict   bool // a leaf and a composite return type under one response name do not conflict
	SubscriptionDedupByName     bool // subscription root fields are counted by field name, not by response key
	RepeatableByName            bool // only a directive literally named "repeatable" may be repeated
	NoLocationDefaultRelaxation bool // a nullable variable is rejected at a non-null position even if the position has a default
	BigIntRejected              bool // an Int literal beyond 64 bits is rejected for Float and ID
}

type varUsage struct {
	name       string
	loc        *Type // expected type at the position, nil when unknown
	locDefault bool  // the position (argument / input field) declares a default value
	oneOf      bool  // the variable is the single value of a oneOf input object: it must be non-nullable
	inTyped    bool  // the variable sits inside a list or object literal given for a type other than a custom scalar
}

type vctx struct {
	s     *Schema
	d     *Doc
	o     DocOpts
	frags map[string]*Fragment
	out   []DocViolation
	// per fragment: variable usages and spreads found in its body
	fragUsages  map[string][]varUsage
	fragSpreads map[string][]string
	shapeMemo   map[[2]*Selection]int8
	mergeSeen   map[[2]*Selection]bool // pairs of fields whose sub-selections were already merged
	typedLit    int                    // > 0 while inside a list/object literal given for a type other than a custom scalar
}

func (c *vctx) add(rule, f string, a ...interface{}) {
	c.out = append(c.out, DocViolation{rule, fmt.Sprintf(f, a...)})
}

var typenameDef = &FieldDef{Name: "__typename", Type: &Type{Name: "String", NonNull: true}}
var schemaMetaDef = &FieldDef{Name: "__schema", Type: &Type{Name: "__Schema", NonNull: true}}
var typeMetaDef = &FieldDef{Name: "__type", Type: &Type{Name: "__Type"}, Args: []*ArgDef{{Name: "name", Type: &Type{Name: "String", NonNull: true}}}}

// fieldDef resolves a field on a parent type, including the meta fields.
func (c *vctx) fieldDef(parent, name string) *FieldDef {
	t := c.s.Types[parent]
	if t == nil {
		return nil
	}
	if name == "__typename" && (t.Kind == "OBJECT" || t.Kind == "INTERFACE" || t.Kind == "UNION") {
		return typenameDef
	}
	if parent == c.s.Query && c.s.Query != "" {
		if name == "__schema" {
			return schemaMetaDef
		}
		if name == "__type" {
			return typeMetaDef
		}
	}
	if t.Kind != "OBJECT" && t.Kind != "INTERFACE" {
		return nil
	}
	for _, f := range t.Fields {
		if f.Name == name {
			return f
		}
	}
	return nil
}

// ValidateDoc evaluates every rule and returns all violations found.
func ValidateDoc(s *Schema, d *Doc, o DocOpts) []DocViolation {
	c := &vctx{s: s, d: d, o: o, frags: map[string]*Fragment{}, fragUsages: map[string][]varUsage{}, fragSpreads: map[string][]string{}, shapeMemo: map[[2]*Selection]int8{}, mergeSeen: map[[2]*Selection]bool{}}
	// fragment name uniqueness
	for _, f := range d.Frags {
		if c.frags[f.Name] != nil {
			c.add("UniqueFragmentNames", "fragment %s defined twice", f.Name)
			continue
		}
		c.frags[f.Name] = f
	}
	// operation names
	seenOps := map[string]bool{}
	for _, op := range d.Ops {
		if op.Name == "" {
			if len(d.Ops) > 1 {
				c.add("LoneAnonymousOperation", "anonymous operation is not alone")
			}
			continue
		}
		if seenOps[op.Name] {
			c.add("UniqueOperationNames", "operation %s defined twice", op.Name)
		}
		seenOps[op.Name] = true
	}
	// fragments: context-free rules on every definition (used or not)
	for _, f := range d.Frags {
		t := c.s.Types[f.TypeCond]
		if t == nil {
			c.add("KnownTypeNames", "fragment %s on unknown type %s", f.Name, f.TypeCond)
		} else if !c.s.IsComposite(f.TypeCond) {
			c.add("FragmentsOnCompositeTypes", "fragment %s on non-composite type %s", f.Name, f.TypeCond)
		}
		var usages []varUsage
		var spreads []string
		// variables in the directives of a fragment definition are usages of every operation that includes the fragment
		c.directives(f.Directives, "FRAGMENT_DEFINITION", &usages)
		parent := ""
		if t != nil {
			parent = f.TypeCond
		}
		c.selections(f.Sels, parent, &usages, &spreads)
		if c.frags[f.Name] == f {
			c.fragUsages[f.Name] = usages
			c.fragSpreads[f.Name] = spreads
		}
		c.mergeable(f.Sels, parent)
	}
	c.fragmentCycles()
	usedFrags := map[string]bool{}
	for _, op := range d.Ops {
		root := ""
		loc := "QUERY"
		switch op.Op {
		case "query":
			root = s.Query
		case "mutation":
			root, loc = s.Mutation, "MUTATION"
		case "subscription":
			root, loc = s.Subscription, "SUBSCRIPTION"
		}
		if root == "" {
			c.add("KnownRootType", "schema has no %s root type", op.Op)
		}
		// variable definitions
		vdefs := map[string]*VarDef{}
		for _, v := range op.Vars {
			if vdefs[v.Name] != nil {
				c.add("UniqueVariableNames", "variable $%s defined twice", v.Name)
			} else {
				vdefs[v.Name] = v
			}
			base := v.Type.Base()
			if c.s.Types[base] == nil {
				c.add("KnownTypeNames", "variable $%s of unknown type %s", v.Name, base)
			} else if !c.s.IsInputType(base) {
				c.add("VariablesAreInputTypes", "variable $%s of non-input type %s", v.Name, v.Type)
			} else if v.Default != nil {
				var u []varUsage
				c.value(v.Default, v.Type, false, &u)
			}
			var u []varUsage
			c.directives(v.Directives, "VARIABLE_DEFINITION", &u)
		}
		var usages []varUsage
		var spreads []string
		c.directives(op.Directives, loc, &usages)
		c.selections(op.Sels, root, &usages, &spreads)
		c.mergeable(op.Sels, root)
		// transitive fragments
		reach := map[string]bool{}
		var visit func(names []string)
		visit = func(names []string) {
			for _, n := range names {
				if reach[n] || c.frags[n] == nil {
					continue
				}
				reach[n] = true
				usedFrags[n] = true
				usages = append(usages, c.fragUsages[n]...)
				visit(c.fragSpreads[n])
			}
		}
		visit(spreads)
		used := map[string]bool{}
		for _, u := range usages {
			used[u.name] = true
			def := vdefs[u.name]
			if def == nil {
				c.add("NoUndefinedVariables", "variable $%s is not defined by operation %q", u.name, op.Name)
				continue
			}
			if c.o.BigIntRejected && u.inTyped && containsBigInt(def.Default) {
				// recorded deviation: converting the enclosing literal follows the variable to its default value
				c.add("ValuesOfCorrectType", "variable $%s inside a typed literal has a default value with an integer beyond 64 bits", u.name)
			}
			if u.oneOf && !def.Type.NonNull {
				c.add("ValuesOfCorrectType", "nullable variable $%s as the value of a oneOf input object", u.name)
			}
			if u.loc != nil && c.s.Types[def.Type.Base()] != nil && !c.variableAllowed(def, u) {
				c.add("VariablesInAllowedPosition", "variable $%s of type %s used where %s is expected", u.name, def.Type, u.loc)
			}
		}
		for _, v := range op.Vars {
			if !used[v.Name] {
				c.add("NoUnusedVariables", "variable $%s is never used in operation %q", v.Name, op.Name)
			}
		}
		if op.Op == "subscription" && root != "" {
			c.subscription(op, root)
		}
	}
	for _, f := range d.Frags {
		if !usedFrags[f.Name] {
			c.add("NoUnusedFragments", "fragment %s is never used", f.Name)
		}
	}
	if IntrospectionDepthExceeded(d) {
		c.add("MaxIntrospectionDepth", "introspection query nests list fields of __Type too deeply")
	}
	return c.out
}

func (c *vctx) variableAllowed(def *VarDef, u varUsage) bool {
	vt, lt := def.Type, u.loc
	if lt.NonNull && !vt.NonNull {
		hasVarDefault := def.Default != nil && def.Default.Kind != "Null"
		hasLocDefault := u.locDefault && !c.o.NoLocationDefaultRelaxation
		if !hasVarDefault && !hasLocDefault {
			return false
		}
		n := *lt
		n.NonNull = false
		return typesCompatible(vt, &n)
	}
	return typesCompatible(vt, lt)
}

// typesCompatible: AreTypesCompatible(variableType, locationType) of the specification.
func typesCompatible(vt, lt *Type) bool {
	if lt.NonNull {
		if !vt.NonNull {
			return false
		}
		a, b := *vt, *lt
		a.NonNull, b.NonNull = false, false
		return typesCompatible(&a, &b)
	}
	if vt.NonNull {
		a := *vt
		a.NonNull = false
		return typesCompatible(&a, lt)
	}
	if lt.Elem != nil {
		if vt.Elem == nil {
			return false
		}
		return typesCompatible(vt.Elem, lt.Elem)
	}
	if vt.Elem != nil {
		return false
	}
	return vt.Name == lt.Name
}

func (c *vctx) dirDef(name string) *DirectiveDef { return c.s.Directives[name] }

func (c *vctx) directives(ds []*Directive, loc string, usages *[]varUsage) {
	seen := map[string]bool{}
	for _, d := range ds {
		def := c.dirDef(d.Name)
		if seen[d.Name] {
			repeatable := def != nil && def.Repeatable
			if c.o.RepeatableByName {
				repeatable = d.Name == "repeatable"
			}
			if !repeatable {
				c.add("UniqueDirectivesPerLocation", "directive @%s used twice at one location", d.Name)
			}
		}
		seen[d.Name] = true
		if def == nil {
			c.add("KnownDirectives", "unknown directive @%s", d.Name)
			c.arguments(d.Args, nil, false, "@"+d.Name, usages)
			continue
		}
		if !contains(def.Locations, loc) {
			c.add("KnownDirectives", "directive @%s may not be used on %s", d.Name, loc)
		}
		c.arguments(d.Args, def.Args, true, "@"+d.Name, usages)
	}
}

// arguments checks names, uniqueness, required arguments and values. ownerKnown=false means
// the field or directive itself is unknown: only uniqueness and variable usages are checked.
func (c *vctx) arguments(args []*Arg, defs []*ArgDef, ownerKnown bool, owner string, usages *[]varUsage) {
	seen := map[string]bool{}
	for _, a := range args {
		if seen[a.Name] {
			c.add("UniqueArgumentNames", "argument %s given twice on %s", a.Name, owner)
		}
		seen[a.Name] = true
		var def *ArgDef
		for _, d := range defs {
			if d.Name == a.Name && def == nil {
				def = d
			}
		}
		var u []varUsage
		if def == nil {
			if ownerKnown {
				c.add("KnownArgumentNames", "unknown argument %s on %s", a.Name, owner)
			}
			c.value(a.Value, nil, false, &u)
		} else {
			c.value(a.Value, def.Type, def.Default != nil, &u)
		}
		if usages != nil {
			*usages = append(*usages, u...)
		}
	}
	if !ownerKnown {
		return
	}
	for _, d := range defs {
		if d.Type.NonNull && d.Default == nil && !seen[d.Name] {
			c.add("ProvidedRequiredArguments", "required argument %s of %s not provided", d.Name, owner)
		}
	}
}

func (c *vctx) selections(sels []*Selection, parent string, usages *[]varUsage, spreads *[]string) {
	for _, s := range sels {
		switch s.Kind {
		case "Field":
			var def *FieldDef
			if parent != "" {
				def = c.fieldDef(parent, s.Name)
				if def == nil {
					c.add("FieldsOnCorrectType", "no field %s on type %s", s.Name, parent)
				}
			}
			if def != nil {
				c.arguments(s.Args, def.Args, true, parent+"."+s.Name, usages)
			} else {
				c.arguments(s.Args, nil, false, s.Name, usages)
			}
			c.directives(s.Directives, "FIELD", usages)
			next := ""
			if def != nil {
				base := def.Type.Base()
				if c.s.Types[base] != nil {
					next = base
					if c.s.IsLeaf(base) && len(s.Sels) > 0 {
						c.add("ScalarLeafs", "field %s of leaf type %s has a selection", s.Name, base)
					}
					if !c.s.IsLeaf(base) && len(s.Sels) == 0 {
						c.add("ScalarLeafs", "field %s of type %s needs a selection", s.Name, def.Type)
					}
				}
			}
			if len(s.Sels) > 0 {
				c.selections(s.Sels, next, usages, spreads)
				c.mergeable(s.Sels, next)
			}
		case "Inline":
			next := parent
			if s.TypeCond != "" {
				t := c.s.Types[s.TypeCond]
				if t == nil {
					c.add("KnownTypeNames", "inline fragment on unknown type %s", s.TypeCond)
					next = ""
				} else if !c.s.IsComposite(s.TypeCond) {
					c.add("FragmentsOnCompositeTypes", "inline fragment on non-composite type %s", s.TypeCond)
					next = s.TypeCond
				} else {
					next = s.TypeCond
					if parent != "" && c.s.IsComposite(parent) && !c.overlap(parent, s.TypeCond) {
						c.add("PossibleFragmentSpreads", "inline fragment on %s can never apply within %s", s.TypeCond, parent)
					}
				}
			}
			c.directives(s.Directives, "INLINE_FRAGMENT", usages)
			c.selections(s.Sels, next, usages, spreads)
			c.mergeable(s.Sels, next)
		case "Spread":
			*spreads = append(*spreads, s.Name)
			c.directives(s.Directives, "FRAGMENT_SPREAD", usages)
			f := c.frags[s.Name]
			if f == nil {
				c.add("KnownFragmentNames", "unknown fragment %s", s.Name)
				continue
			}
			if parent != "" && c.s.IsComposite(parent) && c.s.Types[f.TypeCond] != nil && c.s.IsComposite(f.TypeCond) && !c.overlap(parent, f.TypeCond) {
				c.add("PossibleFragmentSpreads", "fragment %s on %s can never apply within %s", s.Name, f.TypeCond, parent)
			}
		}
	}
}

func (c *vctx) overlap(a, b string) bool {
	pa, pb := c.s.PossibleObjects(a), c.s.PossibleObjects(b)
	for _, x := range pa {
		if contains(pb, x) {
			return true
		}
	}
	return false
}

func (c *vctx) fragmentCycles() {
	// depth first search over the spread graph of the (first) definitions
	state := map[string]int{}
	var visit func(n string)
	visit = func(n string) {
		state[n] = 1
		for _, m := range c.fragSpreads[n] {
			if c.frags[m] == nil {
				continue
			}
			switch state[m] {
			case 0:
				visit(m)
			case 1:
				c.add("NoFragmentCycles", "fragment %s is spread within itself via %s", m, n)
			}
		}
		state[n] = 2
	}
	var names []string
	for n := range c.frags {
		names = append(names, n)
	}
	sort.Strings(names)
	for _, n := range names {
		if state[n] == 0 {
			visit(n)
		}
	}
}

// ---------------------------------------------------------------- values

var int32Min, int32Max = big.NewInt(-2147483648), big.NewInt(2147483647)
var int64Min, int64Max = new(big.Int).SetInt64(-9223372036854775808), new(big.Int).SetInt64(9223372036854775807)

func isOneOf(def *TypeDef) bool {
	for _, d := range def.Directives {
		if d.Name == "oneOf" {
			return true
		}
	}
	return false
}

// value checks literal v against expected type ty (nil = unknown position) and records
// variable usages. locDefault: the position itself declares a default value.
func (c *vctx) value(v *Value, ty *Type, locDefault bool, usages *[]varUsage) {
	if v == nil {
		return
	}
	if v.Kind == "Variable" {
		*usages = append(*usages, varUsage{name: v.Raw, loc: ty, locDefault: locDefault, inTyped: c.typedLit > 0})
		return
	}
	if (v.Kind == "List" || v.Kind == "Object") && ty != nil {
		if def := c.s.Types[ty.Base()]; def != nil && !(def.Kind == "SCALAR" && !isBuiltinScalarName(def.Name)) {
			c.typedLit++
			defer func() { c.typedLit-- }()
		}
	}
	if v.Kind == "Object" {
		seen := map[string]bool{}
		for _, f := range v.Fields {
			if seen[f.Name] {
				c.add("UniqueInputFieldNames", "input field %s given twice", f.Name)
			}
			seen[f.Name] = true
		}
	}
	if ty == nil {
		c.valueUntyped(v, usages)
		return
	}
	if v.Kind == "Null" {
		if ty.NonNull {
			c.add("ValuesOfCorrectType", "null for non-null type %s", ty)
		}
		return
	}
	if ty.Elem != nil {
		if v.Kind == "List" {
			for _, it := range v.Items {
				c.value(it, ty.Elem, false, usages)
			}
			return
		}
		// a single value is coerced to a list of one: it must be valid for the item type
		// (null was handled above; a null item for a nullable element is not reachable here)
		c.value(v, stripNonNull(ty.Elem), false, usages)
		return
	}
	def := c.s.Types[ty.Name]
	if def == nil {
		c.valueUntyped(v, usages)
		return
	}
	if c.o.BigIntRejected && !(def.Kind == "SCALAR" && !isBuiltinScalarName(ty.Name)) && containsBigInt(v) {
		// recorded deviation: the implementation converts every typed literal with ParseInt
		c.add("ValuesOfCorrectType", "integer literal beyond 64 bits inside %s value", ty.Name)
	}
	switch def.Kind {
	case "SCALAR":
		switch ty.Name {
		case "Int", "Float", "String", "Boolean", "ID":
			if !c.builtinScalarOK(ty.Name, v) {
				c.add("ValuesOfCorrectType", "%s literal %s for %s", v.Kind, v.Raw, ty.Name)
			}
			c.valueUntyped(v, usages)
		default:
			// custom scalars accept any literal; variables inside still count as usages
			c.valueUntyped(v, usages)
		}
	case "ENUM":
		ok := false
		if v.Kind == "Enum" {
			for _, e := range def.EnumValues {
				if e.Name == v.Raw {
					ok = true
				}
			}
		}
		if v.Kind == "Object" && len(v.Fields) == 0 && c.o.EmptyObjectForLeaf {
			ok = true
		}
		if !ok {
			c.add("ValuesOfCorrectType", "%s literal %s for enum %s", v.Kind, v.Raw, ty.Name)
		}
		c.valueUntyped(v, usages)
	case "INPUT_OBJECT":
		if v.Kind != "Object" {
			c.add("ValuesOfCorrectType", "%s literal for input object %s", v.Kind, ty.Name)
			c.valueUntyped(v, usages)
			return
		}
		given := map[string]*Value{}
		for _, f := range v.Fields {
			var fd *FieldDef
			for _, x := range def.Fields {
				if x.Name == f.Name && fd == nil {
					fd = x
				}
			}
			if fd == nil {
				c.add("ValuesOfCorrectType", "field %s is not defined by input type %s", f.Name, ty.Name)
				c.value(f.Value, nil, false, usages)
				continue
			}
			if given[f.Name] == nil {
				given[f.Name] = f.Value
			}
			c.value(f.Value, fd.Type, fd.Default != nil, usages)
		}
		for _, fd := range def.Fields {
			if fd.Type.NonNull && fd.Default == nil && given[fd.Name] == nil {
				c.add("ValuesOfCorrectType", "required field %s.%s not provided", ty.Name, fd.Name)
			}
		}
		if isOneOf(def) {
			if len(v.Fields) != 1 {
				c.add("ValuesOfCorrectType", "oneOf input %s must have exactly one key", ty.Name)
			} else if fv := v.Fields[0].Value; fv.Kind == "Null" {
				c.add("ValuesOfCorrectType", "oneOf input %s: field must be non-null", ty.Name)
			} else if fv.Kind == "Variable" && len(*usages) > 0 {
				// marked for the per-operation check: the variable must be non-nullable
				(*usages)[len(*usages)-1].oneOf = true
			}
		}
	default:
		c.add("ValuesOfCorrectType", "literal for non-input type %s", ty.Name)
		c.valueUntyped(v, usages)
	}
}

func stripNonNull(t *Type) *Type {
	c := *t
	c.NonNull = true // a coerced single item is never null at this point
	return &c
}

func (c *vctx) valueUntyped(v *Value, usages *[]varUsage) {
	switch v.Kind {
	case "Variable":
		*usages = append(*usages, varUsage{name: v.Raw})
	case "List":
		for _, it := range v.Items {
			c.value(it, nil, false, usages)
		}
	case "Object":
		for _, f := range v.Fields {
			c.value(f.Value, nil, false, usages)
		}
	}
}

func (c *vctx) builtinScalarOK(name string, v *Value) bool {
	if v.Kind == "Object" && len(v.Fields) == 0 && c.o.EmptyObjectForLeaf {
		return true
	}
	switch name {
	case "Int":
		if v.Kind != "Int" {
			return false
		}
		n, ok := new(big.Int).SetString(v.Raw, 10)
		if !ok {
			return false
		}
		if c.o.NoInt32Range {
			return n.Cmp(int64Min) >= 0 && n.Cmp(int64Max) <= 0
		}
		return n.Cmp(int32Min) >= 0 && n.Cmp(int32Max) <= 0
	case "Float":
		if v.Kind != "Int" && v.Kind != "Float" {
			return false
		}
		// "a value not representable by finite IEEE 754 must raise a request error" (spec 3.5.2)
		if f, ok := new(big.Float).SetString(v.Raw); !ok {
			return false
		} else if x, _ := f.Float64(); math.IsInf(x, 0) {
			return false
		}
		if v.Kind == "Int" {
			return c.bigOK(v.Raw)
		}
		return true
	case "String":
		return v.Kind == "String" || v.Kind == "Block"
	case "Boolean":
		return v.Kind == "Boolean"
	case "ID":
		if v.Kind == "Int" {
			return c.bigOK(v.Raw)
		}
		return v.Kind == "String" || v.Kind == "Block"
	}
	return false
}

func isBuiltinScalarName(n string) bool {
	return n == "Int" || n == "Float" || n == "String" || n == "Boolean" || n == "ID"
}

func containsBigInt(v *Value) bool {
	if v == nil {
		return false
	}
	if v.Kind == "Int" {
		n, ok := new(big.Int).SetString(v.Raw, 10)
		return !ok || n.Cmp(int64Min) < 0 || n.Cmp(int64Max) > 0
	}
	if v.Kind == "Float" {
		// likewise a float literal strconv.ParseFloat reports as out of range
		f, ok := new(big.Float).SetString(v.Raw)
		if !ok {
			return true
		}
		x, _ := f.Float64()
		return math.IsInf(x, 0)
	}
	for _, i := range v.Items {
		if containsBigInt(i) {
			return true
		}
	}
	for _, f := range v.Fields {
		if containsBigInt(f.Value) {
			return true
		}
	}
	return false
}

func (c *vctx) bigOK(raw string) bool {
	if !c.o.BigIntRejected {
		return true
	}
	n, ok := new(big.Int).SetString(raw, 10)
	return ok && n.Cmp(int64Min) >= 0 && n.Cmp(int64Max) <= 0
}

// ---------------------------------------------------------------- subscriptions

func (c *vctx) subscription(op *Operation, root string) {
	// CollectFields over the root selection set, following fragments, grouping by response key
	keys := []string{}
	intro := false
	seenKey := map[string]bool{}
	visited := map[string]bool{}
	var walk func(sels []*Selection)
	walk = func(sels []*Selection) {
		for _, s := range sels {
			switch s.Kind {
			case "Field":
				k := s.Alias
				if k == "" {
					k = s.Name
				}
				if c.o.SubscriptionDedupByName {
					k = s.Name
				}
				if !seenKey[k] {
					seenKey[k] = true
					keys = append(keys, k)
				}
				if strings.HasPrefix(s.Name, "__") {
					intro = true
				}
			case "Inline":
				walk(s.Sels)
			case "Spread":
				if f := c.frags[s.Name]; f != nil && !visited[s.Name] {
					visited[s.Name] = true
					walk(f.Sels)
				}
			}
		}
	}
	walk(op.Sels)
	if len(keys) > 1 {
		c.add("SingleFieldSubscriptions", "subscription %q selects %d root fields", op.Name, len(keys))
	}
	if intro {
		c.add("SingleFieldSubscriptions", "subscription %q selects an introspection root field", op.Name)
	}
}

// ---------------------------------------------------------------- field merging (5.3.2)

type fieldInSet struct {
	node   *Selection
	parent string // name of the parent type, "" when unknown
	def    *FieldDef
}

// collect gathers the fields of the given (selection set, parent type) pairs, visiting inline
// fragments and fragment spreads, grouped by response name in first-seen order.
func (c *vctx) collect(sets []selSet) (order []string, by map[string][]fieldInSet) {
	by = map[string][]fieldInSet{}
	visited := map[string]bool{}
	var walk func(sels []*Selection, parent string)
	walk = func(sels []*Selection, parent string) {
		for _, s := range sels {
			switch s.Kind {
			case "Field":
				k := s.Alias
				if k == "" {
					k = s.Name
				}
				if _, ok := by[k]; !ok {
					order = append(order, k)
				}
				var def *FieldDef
				if parent != "" {
					def = c.fieldDef(parent, s.Name)
				}
				by[k] = append(by[k], fieldInSet{s, parent, def})
			case "Inline":
				p := parent
				if s.TypeCond != "" {
					p = ""
					if c.s.Types[s.TypeCond] != nil {
						p = s.TypeCond
					}
				}
				walk(s.Sels, p)
			case "Spread":
				f := c.frags[s.Name]
				key := s.Name + "\x00" + parent
				if f == nil || visited[key] {
					continue
				}
				visited[key] = true
				p := ""
				if c.s.Types[f.TypeCond] != nil {
					p = f.TypeCond
				}
				walk(f.Sels, p)
			}
		}
	}
	for _, st := range sets {
		walk(st.sels, st.parent)
	}
	return
}

type selSet struct {
	sels   []*Selection
	parent string
}

func (c *vctx) isObject(name string) bool {
	t := c.s.Types[name]
	return t != nil && t.Kind == "OBJECT"
}

// mergeable: FieldsInSetCanMerge for the selection set sels with parent type parent.
func (c *vctx) mergeable(sels []*Selection, parent string) {
	if msg := c.fieldsInSetCanMerge([]selSet{{sels, parent}}, 0); msg != "" {
		c.add("OverlappingFieldsCanBeMerged", "%s", msg)
	}
}

func (c *vctx) fieldsInSetCanMerge(sets []selSet, depth int) string {
	if depth > 12 {
		return ""
	}
	order, by := c.collect(sets)
	for _, k := range order {
		fs := by[k]
		for i := 0; i < len(fs); i++ {
			for j := i + 1; j < len(fs); j++ {
				a, b := fs[i], fs[j]
				if a.node == b.node {
					continue
				}
				if a.parent == "" || b.parent == "" {
					continue // an unknown parent type is reported by another rule
				}
				if a.def != nil && b.def != nil && !c.sameResponseShape(a, b, 0) {
					return fmt.Sprintf("fields %q have different response shapes", k)
				}
				if a.parent == b.parent || !c.isObject(a.parent) || !c.isObject(b.parent) {
					if a.node.Name != b.node.Name {
						return fmt.Sprintf("fields %q: %s and %s are different fields", k, a.node.Name, b.node.Name)
					}
					if !c.sameArguments(a.node.Args, b.node.Args) {
						return fmt.Sprintf("fields %q have differing arguments", k)
					}
					if (len(a.node.Sels) > 0 || len(b.node.Sels) > 0) && !c.mergeSeen[[2]*Selection{a.node, b.node}] {
						// a node's parent type is fixed by where it is written, so one visit per pair suffices
						c.mergeSeen[[2]*Selection{a.node, b.node}] = true
						c.mergeSeen[[2]*Selection{b.node, a.node}] = true
						if msg := c.fieldsInSetCanMerge([]selSet{{a.node.Sels, c.returnType(a)}, {b.node.Sels, c.returnType(b)}}, depth+1); msg != "" {
							return msg
						}
					}
				}
			}
		}
	}
	return ""
}

func (c *vctx) returnType(f fieldInSet) string {
	if f.def == nil {
		return ""
	}
	b := f.def.Type.Base()
	if c.s.Types[b] == nil {
		return ""
	}
	return b
}

func (c *vctx) sameResponseShape(a, b fieldInSet, depth int) bool {
	if depth > 12 {
		return true
	}
	key := [2]*Selection{a.node, b.node}
	if r, ok := c.shapeMemo[key]; ok && depth > 0 {
		return r == 1
	}
	ta, tb := a.def.Type, b.def.Type
	for {
		if ta.NonNull != tb.NonNull {
			return false
		}
		if (ta.Elem == nil) != (tb.Elem == nil) {
			return false
		}
		if ta.Elem == nil {
			break
		}
		ta, tb = ta.Elem, tb.Elem
	}
	la, lb := c.s.IsLeaf(ta.Name), c.s.IsLeaf(tb.Name)
	if c.s.Types[ta.Name] == nil || c.s.Types[tb.Name] == nil {
		return true
	}
	if la || lb {
		if c.o.LeafVsCompositeNoConflict && la != lb {
			// the implementation only compares when both are leaves, and then goes on to the sub-selections
		} else {
			return ta.Name == tb.Name
		}
	}
	c.shapeMemo[key] = 1
	_, by := c.collect([]selSet{{a.node.Sels, c.returnType(a)}, {b.node.Sels, c.returnType(b)}})
	for _, fs := range by {
		for i := 0; i < len(fs); i++ {
			for j := i + 1; j < len(fs); j++ {
				if fs[i].node == fs[j].node || fs[i].def == nil || fs[j].def == nil {
					continue
				}
				if !c.sameResponseShape(fs[i], fs[j], depth+1) {
					c.shapeMemo[key] = 0
					return false
				}
			}
		}
	}
	return true
}

func (c *vctx) sameArguments(a, b []*Arg) bool {
	if len(a) != len(b) {
		return false
	}
	for _, x := range a {
		found := false
		for _, y := range b {
			if x.Name == y.Name && c.sameValue(x.Value, y.Value) {
				found = true
				break
			}
		}
		if !found {
			return false
		}
	}
	return true
}

// sameValue: identical values; object fields in any order (graphql-js sorts them and the
// repository's imported case "allows different order of input object fields" pins that).
func (c *vctx) sameValue(a, b *Value) bool {
	if a.Kind != b.Kind {
		return false
	}
	switch a.Kind {
	case "List":
		if c.o.SameValueShallow {
			return true
		}
		if len(a.Items) != len(b.Items) {
			return false
		}
		for i := range a.Items {
			if !c.sameValue(a.Items[i], b.Items[i]) {
				return false
			}
		}
		return true
	case "Object":
		if c.o.SameValueShallow {
			return true
		}
		if len(a.Fields) != len(b.Fields) {
			return false
		}
		for _, fa := range a.Fields {
			found := false
			for _, fb := range b.Fields {
				if fa.Name == fb.Name && c.sameValue(fa.Value, fb.Value) {
					found = true
					break
				}
			}
			if !found {
				return false
			}
		}
		return true
	}
	return a.Raw == b.Raw
}

// ---------------------------------------------------------------- introspection depth

const maxIntrospectionListDepth = 3

// IntrospectionDepthExceeded implements the graphql-js MaxIntrospectionDepthRule on a document.
func IntrospectionDepthExceeded(d *Doc) bool {
	frags := map[string]*Fragment{}
	for _, f := range d.Frags {
		if frags[f.Name] == nil {
			frags[f.Name] = f
		}
	}
	var check func(s *Selection, visited map[string]bool, depth int) bool
	checkSet := func(sels []*Selection, visited map[string]bool, depth int) bool {
		for _, s := range sels {
			if check(s, visited, depth) {
				return true
			}
		}
		return false
	}
	check = func(s *Selection, visited map[string]bool, depth int) bool {
		switch s.Kind {
		case "Spread":
			if visited[s.Name] {
				return false
			}
			f := frags[s.Name]
			if f == nil {
				return false
			}
			visited[s.Name] = true
			defer delete(visited, s.Name)
			return checkSet(f.Sels, visited, depth)
		case "Field":
			if s.Name == "fields" || s.Name == "interfaces" || s.Name == "possibleTypes" || s.Name == "inputFields" {
				depth++
				if depth >= maxIntrospectionListDepth {
					return true
				}
			}
		}
		return checkSet(s.Sels, visited, depth)
	}
	var walk func(sels []*Selection) bool
	walk = func(sels []*Selection) bool {
		for _, s := range sels {
			if s.Kind == "Field" && (s.Name == "__schema" || s.Name == "__type") {
				if check(s, map[string]bool{}, 0) {
					return true
				}
				continue
			}
			if walk(s.Sels) {
				return true
			}
		}
		return false
	}
	for _, op := range d.Ops {
		if walk(op.Sels) {
			return true
		}
	}
	for _, f := range d.Frags {
		if walk(f.Sels) {
			return true
		}
	}
	return false
}
