package ref

// parser.go: recognisers / tree builders for the two document grammars of the October 2021
// specification (appendix B.3 Document Syntax), written as plain recursive descent over the
// token list of Lex (comments removed). The only extension is the experimental fragment
// variable definitions the library documents (ast/fragment.go).
//
// A parse either succeeds (Fail == -1) or reports the index of the first token at which no
// continuation of the consumed prefix is derivable; Fail == index of EOF means the token
// sequence is a viable prefix of the language.

// ParseOpts switch on grammar deltas that reproduce known findings of the implementation.
type ParseOpts struct {
	AllowEmpty            bool // Document with zero definitions
	StringKeyword         bool // a String/BlockString token spelling a keyword is accepted where `on` (inline fragment), an operation type (schema definition) or `implements` is expected
	VarDefDirectivesVar   bool // directives on variable definitions may contain variables
	SchemaWithoutBraces   bool // `schema Directives?` without `{ ... }`
	NoExtendInterfaceImpl bool // `extend interface A implements B ...` is rejected
	ExtendInputDirsVar    bool // directives of `extend input` may contain variables
	EmptyDescBeforeExtend bool // an empty string token is accepted before `extend`
	EnumValueAnyName      bool // enum value definitions may be named true/false/null
}

type parser struct {
	toks []Tok
	i    int
	fail int
	o    ParseOpts
}

type parseFail struct{}

func (p *parser) peek() Tok { return p.toks[p.i] }
func (p *parser) peekAt(k int) Tok {
	if p.i+k < len(p.toks) {
		return p.toks[p.i+k]
	}
	return p.toks[len(p.toks)-1]
}
func (p *parser) die() {
	p.fail = p.i
	panic(parseFail{})
}
func (p *parser) next() Tok {
	t := p.toks[p.i]
	if t.Kind != EOF {
		p.i++
	}
	return t
}
func (p *parser) expect(k Kind) Tok {
	if p.peek().Kind != k {
		p.die()
	}
	return p.next()
}
func (p *parser) isKw(s string) bool {
	t := p.peek()
	return t.Kind == Name && t.Value == s
}
func (p *parser) expectKw(s string) {
	if !p.isKw(s) {
		p.die()
	}
	p.next()
}
func (p *parser) skip(k Kind) bool {
	if p.peek().Kind == k {
		p.next()
		return true
	}
	return false
}
func (p *parser) name() string { return p.expect(Name).Value }

// StripComments returns the non-comment tokens.
func StripComments(toks []Tok) []Tok {
	out := make([]Tok, 0, len(toks))
	for _, t := range toks {
		if t.Kind != Comment {
			out = append(out, t)
		}
	}
	return out
}

func run(toks []Tok, o ParseOpts, f func(p *parser)) (fail int) {
	p := &parser{toks: toks, fail: -1, o: o}
	defer func() {
		if r := recover(); r != nil {
			if _, ok := r.(parseFail); ok {
				fail = p.fail
				return
			}
			panic(r)
		}
	}()
	f(p)
	return -1
}

// ParseQuery parses an executable document from toks (no comments, terminated by EOF).
func ParseQuery(toks []Tok, o ParseOpts) (*Doc, int) {
	var doc *Doc
	fail := run(toks, o, func(p *parser) { doc = p.document() })
	if fail >= 0 {
		return nil, fail
	}
	return doc, -1
}

// ParseSchema parses a type-system document.
func ParseSchema(toks []Tok, o ParseOpts) (*SchemaDoc, int) {
	var doc *SchemaDoc
	fail := run(toks, o, func(p *parser) { doc = p.schemaDocument() })
	if fail >= 0 {
		return nil, fail
	}
	return doc, -1
}

// ---------------------------------------------------------------- executable documents

func (p *parser) document() *Doc {
	d := &Doc{}
	n := 0
	for p.peek().Kind != EOF {
		n++
		t := p.peek()
		switch {
		case t.Kind == BraceL:
			d.Ops = append(d.Ops, &Operation{Op: "query", Shorthand: true, Sels: p.selectionSet()})
			d.Order += "o"
		case t.Kind == Name && (t.Value == "query" || t.Value == "mutation" || t.Value == "subscription"):
			d.Ops = append(d.Ops, p.operation())
			d.Order += "o"
		case t.Kind == Name && t.Value == "fragment":
			d.Frags = append(d.Frags, p.fragmentDef())
			d.Order += "f"
		default:
			p.die()
		}
	}
	if n == 0 && !p.o.AllowEmpty {
		p.die()
	}
	return d
}

func (p *parser) operation() *Operation {
	op := &Operation{Op: p.next().Value}
	if p.peek().Kind == Name {
		op.Name = p.next().Value
	}
	op.Vars = p.varDefs()
	op.Directives = p.directives(false)
	op.Sels = p.selectionSet()
	return op
}

func (p *parser) varDefs() []*VarDef {
	if !p.skip(ParenL) {
		return nil
	}
	var out []*VarDef
	for {
		v := &VarDef{}
		p.expect(Dollar)
		v.Name = p.name()
		p.expect(Colon)
		v.Type = p.typeRef()
		if p.skip(Equals) {
			v.Default = p.value(true)
		}
		v.Directives = p.directives(!p.o.VarDefDirectivesVar)
		out = append(out, v)
		if p.peek().Kind == ParenR {
			break
		}
	}
	p.expect(ParenR)
	return out
}

func (p *parser) typeRef() *Type {
	t := &Type{}
	if p.skip(BracketL) {
		t.Elem = p.typeRef()
		p.expect(BracketR)
	} else {
		t.Name = p.name()
	}
	if p.skip(Bang) {
		t.NonNull = true
	}
	return t
}

func (p *parser) selectionSet() []*Selection {
	p.expect(BraceL)
	var out []*Selection
	for {
		out = append(out, p.selection())
		if p.peek().Kind == BraceR {
			break
		}
	}
	p.expect(BraceR)
	return out
}

func (p *parser) isOnKeyword() bool {
	t := p.peek()
	if t.Kind == Name && t.Value == "on" {
		return true
	}
	if p.o.StringKeyword && (t.Kind == String || t.Kind == BlockString) && t.ValueExact && t.Value == "on" {
		return true
	}
	return false
}

func (p *parser) selection() *Selection {
	if p.skip(Spread) {
		t := p.peek()
		if t.Kind == Name && t.Value != "on" {
			s := &Selection{Kind: "Spread", Name: p.next().Value}
			s.Directives = p.directives(false)
			return s
		}
		s := &Selection{Kind: "Inline"}
		if p.isOnKeyword() {
			p.next()
			s.TypeCond = p.name()
		}
		s.Directives = p.directives(false)
		s.Sels = p.selectionSet()
		return s
	}
	s := &Selection{Kind: "Field"}
	s.Name = p.name()
	if p.skip(Colon) {
		s.Alias = s.Name
		s.Name = p.name()
	}
	s.Args = p.arguments(false)
	s.Directives = p.directives(false)
	if p.peek().Kind == BraceL {
		s.Sels = p.selectionSet()
	}
	return s
}

func (p *parser) arguments(isConst bool) []*Arg {
	if !p.skip(ParenL) {
		return nil
	}
	var out []*Arg
	for {
		a := &Arg{Name: p.name()}
		p.expect(Colon)
		a.Value = p.value(isConst)
		out = append(out, a)
		if p.peek().Kind == ParenR {
			break
		}
	}
	p.expect(ParenR)
	return out
}

func (p *parser) directives(isConst bool) []*Directive {
	var out []*Directive
	for p.skip(At) {
		d := &Directive{Name: p.name()}
		d.Args = p.arguments(isConst)
		out = append(out, d)
	}
	return out
}

func (p *parser) fragmentDef() *Fragment {
	p.expectKw("fragment")
	f := &Fragment{}
	if p.isKw("on") {
		p.die()
	}
	f.Name = p.name()
	f.Vars = p.varDefs() // experimental extension documented by the library
	p.expectKw("on")
	f.TypeCond = p.name()
	f.Directives = p.directives(false)
	f.Sels = p.selectionSet()
	return f
}

func (p *parser) value(isConst bool) *Value {
	t := p.peek()
	switch t.Kind {
	case BracketL:
		p.next()
		v := &Value{Kind: "List"}
		for p.peek().Kind != BracketR {
			v.Items = append(v.Items, p.value(isConst))
		}
		p.next()
		return v
	case BraceL:
		p.next()
		v := &Value{Kind: "Object"}
		for p.peek().Kind != BraceR {
			f := &ObjField{Name: p.name()}
			p.expect(Colon)
			f.Value = p.value(isConst)
			v.Fields = append(v.Fields, f)
		}
		p.next()
		return v
	case Dollar:
		if isConst {
			p.die()
		}
		p.next()
		return &Value{Kind: "Variable", Raw: p.name()}
	case Int:
		p.next()
		return &Value{Kind: "Int", Raw: t.Value}
	case Float:
		p.next()
		return &Value{Kind: "Float", Raw: t.Value}
	case String:
		p.next()
		return &Value{Kind: "String", Raw: t.Value}
	case BlockString:
		p.next()
		return &Value{Kind: "Block", Raw: t.Value}
	case Name:
		p.next()
		switch t.Value {
		case "true", "false":
			return &Value{Kind: "Boolean", Raw: t.Value}
		case "null":
			return &Value{Kind: "Null", Raw: t.Value}
		}
		return &Value{Kind: "Enum", Raw: t.Value}
	}
	p.die()
	return nil
}

// ---------------------------------------------------------------- type-system documents

func (p *parser) schemaDocument() *SchemaDoc {
	d := &SchemaDoc{}
	n := 0
	for p.peek().Kind != EOF {
		n++
		desc, hasDesc := "", false
		if k := p.peek().Kind; k == String || k == BlockString {
			nt := p.peekAt(1)
			// a description must be followed by a definition keyword
			desc, hasDesc = p.next().Value, true
			_ = nt
		}
		t := p.peek()
		if t.Kind != Name {
			p.die()
		}
		switch t.Value {
		case "schema":
			d.Schemas = append(d.Schemas, p.schemaDef(desc))
		case "scalar", "type", "interface", "union", "enum", "input":
			d.Defs = append(d.Defs, p.typeDef(desc))
		case "directive":
			d.Directives = append(d.Directives, p.directiveDef(desc))
		case "extend":
			if hasDesc && !(p.o.EmptyDescBeforeExtend && desc == "") {
				p.i-- // the description token is where the derivation breaks: an extension cannot follow it
				p.i++
				p.die()
			}
			p.extension(d)
		default:
			p.die()
		}
	}
	if n == 0 && !p.o.AllowEmpty {
		p.die()
	}
	return d
}

func (p *parser) opTypeToken() (string, bool) {
	t := p.peek()
	ok := t.Kind == Name || (p.o.StringKeyword && (t.Kind == String || t.Kind == BlockString) && t.ValueExact)
	if ok && (t.Value == "query" || t.Value == "mutation" || t.Value == "subscription") {
		return t.Value, true
	}
	return "", false
}

func (p *parser) rootOps() []*OpType {
	p.expect(BraceL)
	var out []*OpType
	for {
		op, ok := p.opTypeToken()
		if !ok {
			p.die()
		}
		p.next()
		p.expect(Colon)
		out = append(out, &OpType{Op: op, Type: p.name()})
		if p.peek().Kind == BraceR {
			break
		}
	}
	p.expect(BraceR)
	return out
}

func (p *parser) schemaDef(desc string) *SchemaDef {
	p.expectKw("schema")
	s := &SchemaDef{Desc: desc}
	s.Directives = p.directives(true)
	if p.peek().Kind != BraceL && p.o.SchemaWithoutBraces {
		return s
	}
	s.Ops = p.rootOps()
	return s
}

func (p *parser) implements() []string {
	t := p.peek()
	isImpl := t.Kind == Name && t.Value == "implements"
	if !isImpl && p.o.StringKeyword && (t.Kind == String || t.Kind == BlockString) && t.ValueExact && t.Value == "implements" {
		isImpl = true
	}
	if !isImpl {
		return nil
	}
	p.next()
	p.skip(Amp)
	out := []string{p.name()}
	for p.skip(Amp) {
		out = append(out, p.name())
	}
	return out
}

func (p *parser) description() string {
	if k := p.peek().Kind; k == String || k == BlockString {
		return p.next().Value
	}
	return ""
}

func (p *parser) inputValueDef() *ArgDef {
	a := &ArgDef{Desc: p.description()}
	a.Name = p.name()
	p.expect(Colon)
	a.Type = p.typeRef()
	if p.skip(Equals) {
		a.Default = p.value(true)
	}
	a.Directives = p.directives(true)
	return a
}

func (p *parser) argDefs() []*ArgDef {
	if !p.skip(ParenL) {
		return nil
	}
	var out []*ArgDef
	for {
		out = append(out, p.inputValueDef())
		if p.peek().Kind == ParenR {
			break
		}
	}
	p.expect(ParenR)
	return out
}

func (p *parser) fieldDefs() []*FieldDef {
	if !p.skip(BraceL) {
		return nil
	}
	var out []*FieldDef
	for {
		f := &FieldDef{Desc: p.description()}
		f.Name = p.name()
		f.Args = p.argDefs()
		p.expect(Colon)
		f.Type = p.typeRef()
		f.Directives = p.directives(true)
		out = append(out, f)
		if p.peek().Kind == BraceR {
			break
		}
	}
	p.expect(BraceR)
	return out
}

func (p *parser) inputFieldDefs() []*FieldDef {
	if !p.skip(BraceL) {
		return nil
	}
	var out []*FieldDef
	for {
		a := p.inputValueDef()
		out = append(out, &FieldDef{Desc: a.Desc, Name: a.Name, Type: a.Type, Default: a.Default, Directives: a.Directives})
		if p.peek().Kind == BraceR {
			break
		}
	}
	p.expect(BraceR)
	return out
}

func (p *parser) enumValues() []*EnumVal {
	if !p.skip(BraceL) {
		return nil
	}
	var out []*EnumVal
	for {
		e := &EnumVal{Desc: p.description()}
		if t := p.peek(); t.Kind == Name && !p.o.EnumValueAnyName && (t.Value == "true" || t.Value == "false" || t.Value == "null") {
			p.die()
		}
		e.Name = p.name()
		e.Directives = p.directives(true)
		out = append(out, e)
		if p.peek().Kind == BraceR {
			break
		}
	}
	p.expect(BraceR)
	return out
}

func (p *parser) unionMembers() []string {
	if !p.skip(Equals) {
		return nil
	}
	p.skip(Pipe)
	out := []string{p.name()}
	for p.skip(Pipe) {
		out = append(out, p.name())
	}
	return out
}

var kindOfKeyword = map[string]string{"scalar": "SCALAR", "type": "OBJECT", "interface": "INTERFACE", "union": "UNION", "enum": "ENUM", "input": "INPUT_OBJECT"}

func (p *parser) typeDef(desc string) *TypeDef {
	kw := p.next().Value
	d := &TypeDef{Kind: kindOfKeyword[kw], Desc: desc}
	d.Name = p.name()
	switch kw {
	case "scalar":
		d.Directives = p.directives(true)
	case "type", "interface":
		d.Interfaces = p.implements()
		d.Directives = p.directives(true)
		d.Fields = p.fieldDefs()
	case "union":
		d.Directives = p.directives(true)
		d.Types = p.unionMembers()
	case "enum":
		d.Directives = p.directives(true)
		d.EnumValues = p.enumValues()
	case "input":
		d.Directives = p.directives(true)
		d.Fields = p.inputFieldDefs()
	}
	return d
}

func (p *parser) extension(doc *SchemaDoc) {
	p.expectKw("extend")
	t := p.peek()
	if t.Kind != Name {
		p.die()
	}
	switch t.Value {
	case "schema":
		p.next()
		s := &SchemaDef{}
		s.Directives = p.directives(true)
		if p.peek().Kind == BraceL {
			s.Ops = p.rootOps()
		} else if len(s.Directives) == 0 {
			p.die()
		}
		doc.SchemaExts = append(doc.SchemaExts, s)
	case "scalar":
		p.next()
		d := &TypeDef{Kind: "SCALAR", Name: p.name()}
		d.Directives = p.directives(true)
		if len(d.Directives) == 0 {
			p.die()
		}
		doc.Exts = append(doc.Exts, d)
	case "type", "interface":
		p.next()
		d := &TypeDef{Kind: kindOfKeyword[t.Value], Name: p.name()}
		if t.Value == "type" || !p.o.NoExtendInterfaceImpl {
			d.Interfaces = p.implements()
		}
		d.Directives = p.directives(true)
		d.Fields = p.fieldDefs()
		if len(d.Interfaces) == 0 && len(d.Directives) == 0 && len(d.Fields) == 0 {
			p.die()
		}
		doc.Exts = append(doc.Exts, d)
	case "union":
		p.next()
		d := &TypeDef{Kind: "UNION", Name: p.name()}
		d.Directives = p.directives(true)
		d.Types = p.unionMembers()
		if len(d.Directives) == 0 && len(d.Types) == 0 {
			p.die()
		}
		doc.Exts = append(doc.Exts, d)
	case "enum":
		p.next()
		d := &TypeDef{Kind: "ENUM", Name: p.name()}
		d.Directives = p.directives(true)
		d.EnumValues = p.enumValues()
		if len(d.Directives) == 0 && len(d.EnumValues) == 0 {
			p.die()
		}
		doc.Exts = append(doc.Exts, d)
	case "input":
		p.next()
		d := &TypeDef{Kind: "INPUT_OBJECT", Name: p.name()}
		d.Directives = p.directives(!p.o.ExtendInputDirsVar)
		d.Fields = p.inputFieldDefs()
		if len(d.Directives) == 0 && len(d.Fields) == 0 {
			p.die()
		}
		doc.Exts = append(doc.Exts, d)
	default:
		p.die()
	}
}

var directiveLocations = map[string]bool{
	"QUERY": true, "MUTATION": true, "SUBSCRIPTION": true, "FIELD": true, "FRAGMENT_DEFINITION": true,
	"FRAGMENT_SPREAD": true, "INLINE_FRAGMENT": true, "VARIABLE_DEFINITION": true,
	"SCHEMA": true, "SCALAR": true, "OBJECT": true, "FIELD_DEFINITION": true, "ARGUMENT_DEFINITION": true,
	"INTERFACE": true, "UNION": true, "ENUM": true, "ENUM_VALUE": true, "INPUT_OBJECT": true,
	"INPUT_FIELD_DEFINITION": true,
}

func (p *parser) directiveDef(desc string) *DirectiveDef {
	p.expectKw("directive")
	p.expect(At)
	d := &DirectiveDef{Desc: desc, Name: p.name()}
	d.Args = p.argDefs()
	if p.isKw("repeatable") {
		p.next()
		d.Repeatable = true
	}
	p.expectKw("on")
	p.skip(Pipe)
	for {
		t := p.peek()
		if t.Kind != Name || !directiveLocations[t.Value] {
			p.die()
		}
		p.next()
		d.Locations = append(d.Locations, t.Value)
		if !p.skip(Pipe) {
			break
		}
	}
	return d
}
