package ref

// schema.go: O5, the reference type-system validator. It merges a SchemaDoc (definitions +
// extensions) with the prelude and evaluates the type-system rules that property C07 lists,
// returning reason-coded violations. It never looks at the code under test.

import (
	_ "embed"
	"fmt"
	"sort"
	"strings"
)

//go:embed prelude.graphql
var preludeText string

var preludeDoc *SchemaDoc

// Prelude returns the parsed built-in definitions (scalars, directives, introspection types).
func Prelude() *SchemaDoc {
	if preludeDoc == nil {
		lr := Lex([]rune(preludeText), LexOpts{})
		if !lr.OK {
			panic("ref: prelude does not lex: " + lr.Reason)
		}
		d, fail := ParseSchema(StripComments(lr.Toks), ParseOpts{})
		if fail >= 0 {
			panic(fmt.Sprintf("ref: prelude does not parse at token %d", fail))
		}
		preludeDoc = d
	}
	return preludeDoc
}

var BuiltinScalars = []string{"Int", "Float", "String", "Boolean", "ID"}
var BuiltinDirectives = []string{"include", "skip", "deprecated", "specifiedBy"}
var RedefinableDirectives = map[string]bool{"include": true, "skip": true, "deprecated": true, "specifiedBy": true, "defer": true, "oneOf": true}
var IntrospectionTypes = []string{"__Schema", "__Type", "__Field", "__InputValue", "__EnumValue", "__Directive", "__TypeKind", "__DirectiveLocation"}

// Schema is the merged type system.
type Schema struct {
	Types      map[string]*TypeDef
	TypeOrder  []string
	BuiltIn    map[string]bool // type names that come from the prelude
	Directives map[string]*DirectiveDef
	DirOrder   []string
	BuiltInDir map[string]bool

	Query, Mutation, Subscription string // root type names, "" if absent
	HasSchemaDef                  bool
	SchemaDirectives              []*Directive
	Desc                          string
}

type Violation struct {
	Rule     string   // reason code
	Msg      string   // human readable
	Involved []string // names of the top-level definitions involved
}

func (v Violation) String() string { return v.Rule + ": " + v.Msg }

func copyTypeDef(d *TypeDef) *TypeDef {
	c := *d
	c.Interfaces = append([]string{}, d.Interfaces...)
	c.Directives = append([]*Directive{}, d.Directives...)
	c.Fields = append([]*FieldDef{}, d.Fields...)
	c.Types = append([]string{}, d.Types...)
	c.EnumValues = append([]*EnumVal{}, d.EnumValues...)
	return &c
}

// Unsupported is returned by Merge for documents outside the domain on which the rule list
// of C07 determines the verdict (see DESIGN.md section 7, region 7).
type Unsupported string

// Merge builds the merged schema from user documents (the prelude is added). Violations found
// while merging (duplicates, kind mismatches) are returned; unsupported != "" means the
// verdict is not determined by the rule list.
func Merge(docs ...*SchemaDoc) (s *Schema, viol []Violation, unsupported Unsupported) {
	s = &Schema{Types: map[string]*TypeDef{}, BuiltIn: map[string]bool{}, Directives: map[string]*DirectiveDef{}, BuiltInDir: map[string]bool{}}
	add := func(v Violation) { viol = append(viol, v) }
	all := append([]*SchemaDoc{Prelude()}, docs...)
	for di, d := range all {
		for _, def := range d.Defs {
			if s.Types[def.Name] != nil {
				add(Violation{"duplicate-type", "type " + def.Name + " is defined twice", []string{def.Name}})
				continue
			}
			s.Types[def.Name] = copyTypeDef(def)
			s.TypeOrder = append(s.TypeOrder, def.Name)
			if di == 0 {
				s.BuiltIn[def.Name] = true
			}
		}
	}
	for _, d := range all {
		for _, ext := range d.Exts {
			base := s.Types[ext.Name]
			if base == nil {
				// the library turns an extension without base into a definition; the spec
				// rejects it; C07's rule list does not say
				return s, viol, Unsupported("extension of undefined type " + ext.Name)
			}
			if base.Kind != ext.Kind {
				add(Violation{"extension-kind-mismatch", fmt.Sprintf("extend %s %s but %s is %s", ext.Kind, ext.Name, ext.Name, base.Kind), []string{ext.Name}})
				continue
			}
			base.Directives = append(base.Directives, ext.Directives...)
			base.Interfaces = append(base.Interfaces, ext.Interfaces...)
			base.Fields = append(base.Fields, ext.Fields...)
			base.Types = append(base.Types, ext.Types...)
			base.EnumValues = append(base.EnumValues, ext.EnumValues...)
		}
	}
	for di, d := range all {
		for _, dd := range d.Directives {
			if s.Directives[dd.Name] != nil {
				if RedefinableDirectives[dd.Name] {
					if !s.BuiltInDir[dd.Name] || di == 0 {
						return s, viol, Unsupported("several user definitions of built-in directive " + dd.Name)
					}
					// a user re-declaration of a built-in directive replaces the prelude's
					s.Directives[dd.Name] = dd
					s.BuiltInDir[dd.Name] = false
					continue
				}
				add(Violation{"duplicate-directive", "directive " + dd.Name + " is defined twice", []string{"@" + dd.Name}})
				continue
			}
			s.Directives[dd.Name] = dd
			s.DirOrder = append(s.DirOrder, dd.Name)
			if di == 0 {
				s.BuiltInDir[dd.Name] = true
			}
		}
	}
	nschema := 0
	setRoot := func(o *OpType) {
		if s.Types[o.Type] == nil {
			add(Violation{"undefined-root-type", "schema root " + o.Op + " refers to undefined type " + o.Type, []string{"schema"}})
			return
		}
		switch o.Op {
		case "query":
			s.Query = o.Type
		case "mutation":
			s.Mutation = o.Type
		case "subscription":
			s.Subscription = o.Type
		}
	}
	for _, d := range all {
		for _, sd := range d.Schemas {
			nschema++
			if nschema > 1 {
				add(Violation{"multiple-schema-definitions", "more than one schema definition", []string{"schema"}})
				continue
			}
			s.HasSchemaDef = true
			s.Desc = sd.Desc
			seen := map[string]bool{}
			for _, o := range sd.Ops {
				if seen[o.Op] {
					return s, viol, Unsupported("root operation type given twice")
				}
				seen[o.Op] = true
				setRoot(o)
			}
			s.SchemaDirectives = append(s.SchemaDirectives, sd.Directives...)
		}
	}
	for _, d := range all {
		for _, sd := range d.SchemaExts {
			for _, o := range sd.Ops {
				switch {
				case o.Op == "query" && s.Query != "", o.Op == "mutation" && s.Mutation != "", o.Op == "subscription" && s.Subscription != "":
					return s, viol, Unsupported("root operation type assigned by definition and extension")
				}
				setRoot(o)
			}
			s.SchemaDirectives = append(s.SchemaDirectives, sd.Directives...)
		}
	}
	if !s.HasSchemaDef {
		if s.Query == "" && s.Types["Query"] != nil {
			s.Query = "Query"
		}
		if s.Mutation == "" && s.Types["Mutation"] != nil {
			s.Mutation = "Mutation"
		}
		if s.Subscription == "" && s.Types["Subscription"] != nil {
			s.Subscription = "Subscription"
		}
	}
	return s, viol, ""
}

func (s *Schema) IsInputType(name string) bool {
	t := s.Types[name]
	return t != nil && (t.Kind == "SCALAR" || t.Kind == "ENUM" || t.Kind == "INPUT_OBJECT")
}

func (s *Schema) IsOutputType(name string) bool {
	t := s.Types[name]
	return t != nil && t.Kind != "INPUT_OBJECT"
}

func (s *Schema) IsComposite(name string) bool {
	t := s.Types[name]
	return t != nil && (t.Kind == "OBJECT" || t.Kind == "INTERFACE" || t.Kind == "UNION")
}

func (s *Schema) IsLeaf(name string) bool {
	t := s.Types[name]
	return t != nil && (t.Kind == "SCALAR" || t.Kind == "ENUM")
}

func contains(l []string, s string) bool {
	for _, x := range l {
		if x == s {
			return true
		}
	}
	return false
}

// PossibleObjects returns the object types that are possible for a composite type: the
// object itself, the objects declaring an interface, the members of a union.
func (s *Schema) PossibleObjects(name string) []string {
	t := s.Types[name]
	if t == nil {
		return nil
	}
	var out []string
	switch t.Kind {
	case "OBJECT":
		out = []string{name}
	case "INTERFACE":
		for _, n := range s.TypeOrder {
			if o := s.Types[n]; o.Kind == "OBJECT" && contains(o.Interfaces, name) {
				out = append(out, n)
			}
		}
	case "UNION":
		for _, m := range t.Types {
			if o := s.Types[m]; o != nil && o.Kind == "OBJECT" && !contains(out, m) {
				out = append(out, m)
			}
		}
	}
	sort.Strings(out)
	return out
}

// IsSubType: is sub a possible runtime type of (or equal to) super, for covariance.
func (s *Schema) isSubTypeName(sub, super string) bool {
	if sub == super {
		return true
	}
	st, pt := s.Types[sub], s.Types[super]
	if st == nil || pt == nil {
		return false
	}
	switch pt.Kind {
	case "INTERFACE":
		return (st.Kind == "OBJECT" || st.Kind == "INTERFACE") && contains(st.Interfaces, super)
	case "UNION":
		return st.Kind == "OBJECT" && contains(pt.Types, sub)
	}
	return false
}

func (s *Schema) covariant(required, actual *Type) bool {
	if required.NonNull && !actual.NonNull {
		return false
	}
	if required.Elem != nil || actual.Elem != nil {
		if required.Elem == nil || actual.Elem == nil {
			return false
		}
		return s.covariant(required.Elem, actual.Elem)
	}
	return s.isSubTypeName(actual.Name, required.Name)
}

// CovariantExported is covariant for use by generators.
func (s *Schema) CovariantExported(required, actual *Type) bool { return s.covariant(required, actual) }

// TypeEqual reports structural identity of two type references.
func TypeEqual(a, b *Type) bool { return typeEqual(a, b) }

func typeEqual(a, b *Type) bool {
	if a == nil || b == nil {
		return a == b
	}
	if a.NonNull != b.NonNull || a.Name != b.Name {
		return false
	}
	if (a.Elem == nil) != (b.Elem == nil) {
		return false
	}
	if a.Elem != nil {
		return typeEqual(a.Elem, b.Elem)
	}
	return true
}

// ValidateOpts switch on recorded deviations of the implementation.
type ValidateOpts struct {
	ArgTypeCompatibleNotIdentical bool // an implementer's argument may be nullable where the interface says non-null
}

var typeSystemLocationOfKind = map[string]string{"SCALAR": "SCALAR", "OBJECT": "OBJECT", "INTERFACE": "INTERFACE", "UNION": "UNION", "ENUM": "ENUM", "INPUT_OBJECT": "INPUT_OBJECT"}

// Validate evaluates the rule list of C07 on the merged schema.
func (s *Schema) Validate(o ValidateOpts) []Violation {
	var out []Violation
	add := func(rule string, involved []string, f string, a ...interface{}) {
		out = append(out, Violation{rule, fmt.Sprintf(f, a...), involved})
	}
	reserved := func(n string) bool { return strings.HasPrefix(n, "__") }

	checkDirectives := func(ds []*Directive, loc string, owner string, within *DirectiveDef) {
		for _, d := range ds {
			inv := []string{owner, "@" + d.Name}
			if reserved(d.Name) {
				add("reserved-name", inv, "directive application @%s uses a reserved name", d.Name)
				continue
			}
			if within != nil && d.Name == within.Name {
				add("directive-self-reference", inv, "directive @%s refers to itself", d.Name)
				continue
			}
			def := s.Directives[d.Name]
			if def == nil {
				add("undefined-directive", inv, "directive @%s applied at %s %s is not defined", d.Name, loc, owner)
				continue
			}
			if !contains(def.Locations, loc) {
				add("directive-location", inv, "directive @%s is not declared for %s (used on %s)", d.Name, loc, owner)
				continue
			}
			for _, a := range d.Args {
				found := false
				for _, ad := range def.Args {
					if ad.Name == a.Name {
						found = true
					}
				}
				if !found {
					add("unknown-directive-argument", inv, "directive @%s has no argument %s", d.Name, a.Name)
				}
			}
			for _, ad := range def.Args {
				if ad.Type.NonNull && ad.Default == nil {
					var given *Arg
					for _, a := range d.Args {
						if a.Name == ad.Name && given == nil {
							given = a
						}
					}
					if given == nil || given.Value.Kind == "Null" {
						add("directive-required-argument", inv, "required argument %s of @%s missing or null on %s", ad.Name, d.Name, owner)
					}
				}
			}
		}
	}
	checkArgs := func(args []*ArgDef, owner string, within *DirectiveDef) {
		for _, a := range args {
			inv := []string{owner}
			if reserved(a.Name) {
				add("reserved-name", inv, "argument %s of %s uses a reserved name", a.Name, owner)
			}
			base := a.Type.Base()
			if s.Types[base] == nil {
				add("undefined-type", append(inv, base), "argument %s of %s has undefined type %s", a.Name, owner, base)
			} else if !s.IsInputType(base) {
				add("output-type-in-input-position", append(inv, base), "argument %s of %s has non-input type %s", a.Name, owner, base)
			}
			checkDirectives(a.Directives, "ARGUMENT_DEFINITION", owner, within)
		}
	}

	names := append([]string{}, s.TypeOrder...)
	sort.Strings(names)
	for _, n := range names {
		t := s.Types[n]
		if !s.BuiltIn[n] && reserved(n) {
			add("reserved-name", []string{n}, "type %s uses a reserved name", n)
		}
		// fields
		seen := map[string]bool{}
		for _, f := range t.Fields {
			if seen[f.Name] {
				add("duplicate-field", []string{n}, "field %s.%s is defined twice", n, f.Name)
			}
			seen[f.Name] = true
			if reserved(f.Name) && !s.BuiltIn[n] {
				add("reserved-name", []string{n}, "field %s.%s uses a reserved name", n, f.Name)
			}
			base := f.Type.Base()
			if s.Types[base] == nil {
				add("undefined-type", []string{n, base}, "field %s.%s has undefined type %s", n, f.Name, base)
			} else if t.Kind == "INPUT_OBJECT" {
				if !s.IsInputType(base) {
					add("output-type-in-input-position", []string{n, base}, "input field %s.%s has non-input type %s", n, f.Name, base)
				}
			} else if !s.IsOutputType(base) {
				add("input-type-in-output-position", []string{n, base}, "field %s.%s has input object type %s", n, f.Name, base)
			}
			if t.Kind == "INPUT_OBJECT" {
				checkDirectives(f.Directives, "INPUT_FIELD_DEFINITION", n, nil)
			} else {
				checkArgs(f.Args, n, nil)
				checkDirectives(f.Directives, "FIELD_DEFINITION", n, nil)
			}
		}
		switch t.Kind {
		case "OBJECT", "INTERFACE", "INPUT_OBJECT":
			if len(t.Fields) == 0 {
				add("empty-type", []string{n}, "%s %s has no fields", t.Kind, n)
			}
		case "ENUM":
			if len(t.EnumValues) == 0 {
				add("empty-type", []string{n}, "enum %s has no values", n)
			}
			for _, ev := range t.EnumValues {
				if ev.Name == "true" || ev.Name == "false" || ev.Name == "null" {
					add("enum-value-reserved-word", []string{n}, "enum %s has value %s", n, ev.Name)
				}
				checkDirectives(ev.Directives, "ENUM_VALUE", n, nil)
			}
		}
		if t.Kind == "UNION" {
			for _, m := range t.Types {
				mt := s.Types[m]
				if mt == nil {
					add("undefined-type", []string{n, m}, "union %s has undefined member %s", n, m)
				} else if mt.Kind != "OBJECT" {
					add("union-member-kind", []string{n, m}, "union %s has non-object member %s", n, m)
				}
			}
		}
		for _, in := range t.Interfaces {
			it := s.Types[in]
			if it == nil {
				add("undefined-type", []string{n, in}, "%s implements undefined type %s", n, in)
				continue
			}
			if it.Kind != "INTERFACE" {
				add("implements-non-interface", []string{n, in}, "%s implements %s which is %s", n, in, it.Kind)
				continue
			}
			for _, rf := range it.Fields {
				var ff *FieldDef
				for _, f := range t.Fields {
					if f.Name == rf.Name && ff == nil {
						ff = f
					}
				}
				if ff == nil {
					add("interface-field-missing", []string{n, in}, "%s lacks field %s of interface %s", n, rf.Name, in)
					continue
				}
				if !s.covariant(rf.Type, ff.Type) {
					add("interface-field-type", []string{n, in}, "%s.%s: %s is not a subtype of %s.%s: %s", n, rf.Name, ff.Type, in, rf.Name, rf.Type)
				}
				for _, ra := range rf.Args {
					var fa *ArgDef
					for _, a := range ff.Args {
						if a.Name == ra.Name && fa == nil {
							fa = a
						}
					}
					if fa == nil {
						add("interface-argument-missing", []string{n, in}, "%s.%s lacks argument %s of %s", n, rf.Name, ra.Name, in)
						continue
					}
					same := typeEqual(ra.Type, fa.Type)
					if !same && o.ArgTypeCompatibleNotIdentical {
						same = looseArgCompatible(ra.Type, fa.Type)
					}
					if !same {
						add("interface-argument-type", []string{n, in}, "%s.%s(%s: %s) differs from %s (%s)", n, rf.Name, ra.Name, fa.Type, in, ra.Type)
					}
				}
				for _, fa := range ff.Args {
					found := false
					for _, ra := range rf.Args {
						if ra.Name == fa.Name {
							found = true
						}
					}
					if !found && fa.Type.NonNull && fa.Default == nil {
						add("interface-extra-required-argument", []string{n, in}, "%s.%s has additional required argument %s", n, rf.Name, fa.Name)
					}
				}
			}
			for _, tr := range it.Interfaces {
				if !contains(t.Interfaces, tr) {
					add("interface-transitive-missing", []string{n, in}, "%s implements %s but not %s which %s implements", n, in, tr, in)
				}
			}
		}
		if loc, ok := typeSystemLocationOfKind[t.Kind]; ok {
			checkDirectives(t.Directives, loc, n, nil)
		}
	}
	dnames := append([]string{}, s.DirOrder...)
	for n := range s.Directives {
		if !contains(dnames, n) {
			dnames = append(dnames, n)
		}
	}
	sort.Strings(dnames)
	for _, n := range dnames {
		d := s.Directives[n]
		if reserved(n) {
			add("reserved-name", []string{"@" + n}, "directive @%s uses a reserved name", n)
		}
		checkArgs(d.Args, "@"+n, d)
	}
	checkDirectives(s.SchemaDirectives, "SCHEMA", "schema", nil)
	return out
}

// looseArgCompatible reproduces ast.Type.IsCompatible(required=interface arg, found) as used
// by the implementation for interface arguments (finding interface-arg-nullability).
func looseArgCompatible(t, other *Type) bool {
	if t.Name != other.Name {
		return false
	}
	if t.Elem != nil && other.Elem == nil {
		return false
	}
	if t.Elem != nil && !looseArgCompatible(t.Elem, other.Elem) {
		return false
	}
	if other.NonNull {
		return t.NonNull
	}
	return true
}
