// Package proj projects the library's data structures (tokens, ASTs, errors) into the plain
// model types of package ref so that they can be compared with reference results.
package proj

import (
	"github.com/vektah/gqlparser/v2/ast"
	"github.com/vektah/gqlparser/v2/lexer"

	"verif/harness/ref"
)

// LibLex runs the library lexer to the end. It returns the tokens (comments included, EOF
// last when ok), the positions as reported, and the error if any.
type LibTok struct {
	Kind   string
	Start  int
	End    int
	Value  string
	Line   int
	Column int
}

func LibLex(src *ast.Source) (toks []LibTok, err error) {
	lx := lexer.New(src)
	max := len(src.Input) + 2
	for i := 0; i <= max; i++ {
		t, e := lx.ReadToken()
		if e != nil {
			return toks, e
		}
		toks = append(toks, LibTok{Kind: t.Kind.Name(), Start: t.Pos.Start, End: t.Pos.End, Value: t.Value, Line: t.Pos.Line, Column: t.Pos.Column})
		if t.Kind == lexer.EOF {
			return toks, nil
		}
	}
	return toks, errTooManyTokens
}

type tooMany struct{}

func (tooMany) Error() string { return "lexer produced more tokens than input bytes + 2" }

var errTooManyTokens error = tooMany{}

// ---------------------------------------------------------------- executable documents

var valueKinds = map[ast.ValueKind]string{ast.Variable: "Variable", ast.IntValue: "Int", ast.FloatValue: "Float",
	ast.StringValue: "String", ast.BlockValue: "Block", ast.BooleanValue: "Boolean", ast.NullValue: "Null",
	ast.EnumValue: "Enum", ast.ListValue: "List", ast.ObjectValue: "Object"}

func Value(v *ast.Value) *ref.Value {
	if v == nil {
		return nil
	}
	out := &ref.Value{Kind: valueKinds[v.Kind]}
	switch v.Kind {
	case ast.ListValue:
		for _, c := range v.Children {
			out.Items = append(out.Items, Value(c.Value))
		}
	case ast.ObjectValue:
		for _, c := range v.Children {
			out.Fields = append(out.Fields, &ref.ObjField{Name: c.Name, Value: Value(c.Value)})
		}
	default:
		out.Raw = v.Raw
	}
	return out
}

func Type(t *ast.Type) *ref.Type {
	if t == nil {
		return nil
	}
	return &ref.Type{Name: t.NamedType, Elem: Type(t.Elem), NonNull: t.NonNull}
}

func Args(l ast.ArgumentList) []*ref.Arg {
	var out []*ref.Arg
	for _, a := range l {
		out = append(out, &ref.Arg{Name: a.Name, Value: Value(a.Value)})
	}
	return out
}

func Directives(l ast.DirectiveList) []*ref.Directive {
	var out []*ref.Directive
	for _, d := range l {
		out = append(out, &ref.Directive{Name: d.Name, Args: Args(d.Arguments)})
	}
	return out
}

func VarDefs(l ast.VariableDefinitionList) []*ref.VarDef {
	var out []*ref.VarDef
	for _, v := range l {
		out = append(out, &ref.VarDef{Name: v.Variable, Type: Type(v.Type), Default: Value(v.DefaultValue), Directives: Directives(v.Directives)})
	}
	return out
}

func Selections(l ast.SelectionSet) []*ref.Selection {
	var out []*ref.Selection
	for _, s := range l {
		switch s := s.(type) {
		case *ast.Field:
			f := &ref.Selection{Kind: "Field", Name: s.Name, Args: Args(s.Arguments), Directives: Directives(s.Directives), Sels: Selections(s.SelectionSet)}
			if s.Alias != s.Name {
				f.Alias = s.Alias
			}
			out = append(out, f)
		case *ast.FragmentSpread:
			out = append(out, &ref.Selection{Kind: "Spread", Name: s.Name, Directives: Directives(s.Directives)})
		case *ast.InlineFragment:
			out = append(out, &ref.Selection{Kind: "Inline", TypeCond: s.TypeCondition, Directives: Directives(s.Directives), Sels: Selections(s.SelectionSet)})
		default:
			out = append(out, &ref.Selection{Kind: "?"})
		}
	}
	return out
}

// Doc projects a query document. Shorthand-ness and the interleaving of operations and
// fragments are not represented by the library; use NormDoc on the reference side.
func Doc(d *ast.QueryDocument) *ref.Doc {
	if d == nil {
		return nil
	}
	out := &ref.Doc{}
	for _, o := range d.Operations {
		out.Ops = append(out.Ops, &ref.Operation{Op: string(o.Operation), Name: o.Name, Vars: VarDefs(o.VariableDefinitions),
			Directives: Directives(o.Directives), Sels: Selections(o.SelectionSet)})
	}
	for _, f := range d.Fragments {
		out.Frags = append(out.Frags, &ref.Fragment{Name: f.Name, Vars: VarDefs(f.VariableDefinition), TypeCond: f.TypeCondition,
			Directives: Directives(f.Directives), Sels: Selections(f.SelectionSet)})
	}
	return out
}

// ---------------------------------------------------------------- type-system documents

func ArgDefs(l ast.ArgumentDefinitionList) []*ref.ArgDef {
	var out []*ref.ArgDef
	for _, a := range l {
		out = append(out, &ref.ArgDef{Desc: a.Description, Name: a.Name, Type: Type(a.Type), Default: Value(a.DefaultValue), Directives: Directives(a.Directives)})
	}
	return out
}

func FieldDefs(l ast.FieldList) []*ref.FieldDef {
	var out []*ref.FieldDef
	for _, f := range l {
		out = append(out, &ref.FieldDef{Desc: f.Description, Name: f.Name, Args: ArgDefs(f.Arguments), Type: Type(f.Type), Default: Value(f.DefaultValue), Directives: Directives(f.Directives)})
	}
	return out
}

func TypeDef(d *ast.Definition) *ref.TypeDef {
	out := &ref.TypeDef{Kind: string(d.Kind), Desc: d.Description, Name: d.Name, Directives: Directives(d.Directives), Fields: FieldDefs(d.Fields)}
	out.Interfaces = append(out.Interfaces, d.Interfaces...)
	out.Types = append(out.Types, d.Types...)
	for _, e := range d.EnumValues {
		out.EnumValues = append(out.EnumValues, &ref.EnumVal{Desc: e.Description, Name: e.Name, Directives: Directives(e.Directives)})
	}
	return out
}

func SchemaDef(s *ast.SchemaDefinition) *ref.SchemaDef {
	out := &ref.SchemaDef{Desc: s.Description, Directives: Directives(s.Directives)}
	for _, o := range s.OperationTypes {
		out.Ops = append(out.Ops, &ref.OpType{Op: string(o.Operation), Type: o.Type})
	}
	return out
}

func DirectiveDef(d *ast.DirectiveDefinition) *ref.DirectiveDef {
	out := &ref.DirectiveDef{Desc: d.Description, Name: d.Name, Args: ArgDefs(d.Arguments), Repeatable: d.IsRepeatable}
	for _, l := range d.Locations {
		out.Locations = append(out.Locations, string(l))
	}
	return out
}

func SchemaDoc(d *ast.SchemaDocument) *ref.SchemaDoc {
	if d == nil {
		return nil
	}
	out := &ref.SchemaDoc{}
	for _, s := range d.Schema {
		out.Schemas = append(out.Schemas, SchemaDef(s))
	}
	for _, s := range d.SchemaExtension {
		out.SchemaExts = append(out.SchemaExts, SchemaDef(s))
	}
	for _, x := range d.Directives {
		out.Directives = append(out.Directives, DirectiveDef(x))
	}
	for _, x := range d.Definitions {
		out.Defs = append(out.Defs, TypeDef(x))
	}
	for _, x := range d.Extensions {
		out.Exts = append(out.Exts, TypeDef(x))
	}
	return out
}
