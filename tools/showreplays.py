#!/usr/bin/env python3
import json, sys, glob
for f in sorted(glob.glob(sys.argv[1])):
    d = json.load(open(f))
    c = d['case']
    print(json.dumps(c.get('input', c.get('query', c)), ensure_ascii=False)[:300], '=>', d['message'][:int(sys.argv[2]) if len(sys.argv) > 2 else 260])
