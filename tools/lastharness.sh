#!/bin/bash
# usage: tools/lastharness.sh C08 [rapid seed]  - run a check binary directly and show the last informative HARNESS-ERROR
cd /verif/harness/checks && VERIF_TIER=quick VERIF_SEED=${3:-1} VERIF_DIR=/verif timeout 900 ../../.build/checks.test -test.run "^Test$1\$" -rapid.seed=${2:-6224433556345677831} -rapid.nofailfile > /tmp/$1.log 2>&1
grep "HARNESS" /tmp/$1.log | grep -v "rapid failed" | tail -1 | cut -c1-${4:-2500}
