#!/usr/bin/env python3
"""tools/seeded_table.py [glob]  -- one line per seeded change: verified? which checks detect it."""
import json,glob,os,sys
pat = sys.argv[1] if len(sys.argv)>1 else 'C*'
for d in sorted(glob.glob(os.path.join(os.path.dirname(os.path.dirname(os.path.abspath(__file__))),'seeded',pat))):
    m=json.load(open(d+'/meta.json'))
    v=m.get('verified',{})
    ok=all(v.get(k) for k in ('applies','suite_passes_with_patch','demo_fails_with_patch','demo_passes_without_patch'))
    out=[]
    for tier,ch in m.get('checks',{}).items():
        for p,r in sorted(ch.items()):
            out.append('%s/%s:%s'%(p,tier,'DETECTED' if r.get('exit')==1 else ('exit%d'%r.get('exit',-1) if r.get('exit') else 'missed')))
    print(os.path.basename(d),'verified' if ok else 'UNVERIFIED',' '.join(out))
