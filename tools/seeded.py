#!/usr/bin/env python3
"""Seeded-change bookkeeping.

  tools/seeded.py import <out_dir> <seed_id>          copy a sub-agent deliverable (patch.diff, demo, meta.json) into /verif/seeded/<seed_id>/
  tools/seeded.py verify <seed_id>                    in a scratch worktree: suite passes with the patch, demo fails with it and passes without it
  tools/seeded.py check <seed_id> [CNN ...] [--tier quick]   run checks against a scratch worktree with the patch applied; prints which detect it
All scratch worktrees live under /tmp and are removed afterwards.
"""
import json, os, shutil, subprocess, sys, glob, re, time

VERIF = os.path.dirname(os.path.dirname(os.path.abspath(__file__)))
SEEDED = os.path.join(VERIF, "seeded")
ENV = dict(os.environ, GOFLAGS="-mod=mod", GOPROXY="off", GOSUMDB="off", GOTOOLCHAIN="local")


def sh(cmd, cwd=None, timeout=1800):
    p = subprocess.run(cmd, cwd=cwd, env=ENV, shell=isinstance(cmd, str), stdout=subprocess.PIPE, stderr=subprocess.STDOUT, text=True, errors="replace", timeout=timeout)
    return p.returncode, p.stdout


def worktree(tag):
    d = "/tmp/seedwt_%s_%d" % (tag, os.getpid())
    sh(["git", "-C", "/repo", "worktree", "remove", "--force", d])
    rc, out = sh(["git", "-C", "/repo", "worktree", "add", "-f", d, "HEAD"])
    if rc != 0:
        raise SystemExit(out)
    return d


def drop(d):
    sh(["git", "-C", "/repo", "worktree", "remove", "--force", d])
    shutil.rmtree(d, ignore_errors=True)
    for f in glob.glob(os.path.join(VERIF, ".build", "checks*" + re.sub(r"[^A-Za-z0-9]", "_", d)[-40:] + "*")):
        os.remove(f)


def cmd_import(out_dir, sid):
    dst = os.path.join(SEEDED, sid)
    os.makedirs(dst, exist_ok=True)
    for f in os.listdir(out_dir):
        src = os.path.join(out_dir, f)
        if os.path.isfile(src):
            shutil.copy(src, os.path.join(dst, f))
        else:
            shutil.copytree(src, os.path.join(dst, f), dirs_exist_ok=True)
    print("imported", dst, os.listdir(dst))


def load_meta(sid):
    with open(os.path.join(SEEDED, sid, "meta.json")) as f:
        return json.load(f)


def save_meta(sid, m):
    with open(os.path.join(SEEDED, sid, "meta.json"), "w") as f:
        json.dump(m, f, indent=1, sort_keys=True)
        f.write("\n")


def place_demo(sid, wt, meta):
    d = os.path.join(SEEDED, sid)
    demo_dir = os.path.join(wt, meta.get("demo_dir", "seeddemo"))
    os.makedirs(demo_dir, exist_ok=True)
    n = 0
    for f in os.listdir(d):
        if f.endswith(".go"):
            shutil.copy(os.path.join(d, f), os.path.join(demo_dir, f))
            n += 1
    for sub in os.listdir(d):
        p = os.path.join(d, sub)
        if os.path.isdir(p):
            for f in os.listdir(p):
                if f.endswith(".go"):
                    os.makedirs(os.path.join(demo_dir), exist_ok=True)
                    shutil.copy(os.path.join(p, f), os.path.join(demo_dir, f))
                    n += 1
    return n


def cmd_verify(sid):
    meta = load_meta(sid)
    wt = worktree(sid)
    res = {}
    try:
        rc, out = sh(["git", "apply", os.path.join(SEEDED, sid, "patch.diff")], cwd=wt)
        res["applies"] = rc == 0
        if rc != 0:
            print(out)
            return res
        rc, out = sh("go build ./... && go test -vet=off -count=1 ./...", cwd=wt)
        res["suite_passes_with_patch"] = rc == 0
        if rc != 0:
            print(out[-2000:])
        place_demo(sid, wt, meta)
        demo_cmd = meta.get("demo_cmd", "go test -vet=off -count=1 ./" + meta.get("demo_dir", "seeddemo") + "/")
        rc, out = sh(demo_cmd, cwd=wt)
        res["demo_fails_with_patch"] = rc != 0
        res["demo_output_with_patch"] = out[-600:]
        sh(["git", "apply", "-R", os.path.join(SEEDED, sid, "patch.diff")], cwd=wt)
        rc, out = sh(demo_cmd, cwd=wt)
        res["demo_passes_without_patch"] = rc == 0
        if rc != 0:
            print(out[-1500:])
    finally:
        drop(wt)
    meta["verified"] = res
    meta["verified_by"] = "tools/seeded.py verify: scratch worktree of /repo HEAD; `go build ./... && go test -vet=off -count=1 ./...` with the patch; demo with and without the patch"
    save_meta(sid, meta)
    print(json.dumps({k: v for k, v in res.items() if not k.startswith("demo_output")}))
    return res


def cmd_check(sid, props, tier):
    meta = load_meta(sid)
    wt = worktree(sid)
    results = {}
    try:
        rc, out = sh(["git", "apply", os.path.join(SEEDED, sid, "patch.diff")], cwd=wt)
        if rc != 0:
            raise SystemExit(out)
        for p in props:
            env = dict(os.environ, VERIF_REPO=wt, VERIF_NO_EVIDENCE="1")
            t0 = time.time()
            q = subprocess.run([os.path.join(VERIF, "verif"), "check", p, "--tier", tier], env=env, stdout=subprocess.PIPE, stderr=subprocess.STDOUT, text=True)
            viol = [l for l in q.stdout.split("\n") if l.startswith("VIOLATION")]
            results[p] = {"exit": q.returncode, "violations": len(viol), "seconds": round(time.time() - t0, 1)}
            print(p, results[p], (viol[0] if viol else q.stdout[-300:].replace("\n", " | ")))
            if viol:
                m = re.search(r"replay=(\S+)", viol[0])
                if m and os.path.exists(m.group(1)):
                    try:
                        with open(m.group(1)) as f:
                            rf = json.load(f)
                        results[p]["message"] = rf.get("message", "")[:300]
                        print("   ", results[p]["message"])
                    except Exception:
                        pass
    finally:
        drop(wt)
    seed = os.environ.get("VERIF_SEED", "1")
    key = tier if seed == "1" else "%s@seed%s" % (tier, seed)
    meta.setdefault("checks", {}).setdefault(key, {}).update(results)
    save_meta(sid, meta)


def main():
    a = sys.argv[1:]
    if not a:
        print(__doc__)
        return
    if a[0] == "import":
        cmd_import(a[1], a[2])
    elif a[0] == "verify":
        cmd_verify(a[1])
    elif a[0] == "check":
        tier = "quick"
        rest = a[2:]
        if "--tier" in rest:
            i = rest.index("--tier")
            tier = rest[i + 1]
            rest = rest[:i] + rest[i + 2:]
        props = rest or [load_meta(a[1])["property"]]
        cmd_check(a[1], props, tier)


if __name__ == "__main__":
    main()
