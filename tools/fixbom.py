#!/usr/bin/env python3
"""Go source must not contain a literal byte order mark: replace any by the escape."""
import glob, os
root = os.path.join(os.path.dirname(os.path.dirname(os.path.abspath(__file__))), "harness")
for p in glob.glob(os.path.join(root, "**", "*.go"), recursive=True):
    s = open(p, encoding="utf-8").read()
    if "﻿" in s:
        open(p, "w", encoding="utf-8").write(s.replace("﻿", "\\uFEFF"))
        print("fixed", p)
