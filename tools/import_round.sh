#!/bin/bash
# tools/import_round.sh <out_prefix> <first_index> CNN...   import, verify and check the deliverables <out_prefix>_CNN/m1,m2 as CNN-m<first>,CNN-m<first+1>
cd "$(dirname "$0")/.."
pre=$1; first=$2; shift 2
for p in "$@"; do
  i=$first
  for m in m1 m2; do
    id=$p-m$i; i=$((i+1))
    [ -d ${pre}_$p/$m ] || { echo "$id: no deliverable"; continue; }
    python3 tools/seeded.py import ${pre}_$p/$m $id >/dev/null
    python3 tools/seeded.py verify $id 2>&1 | tail -1
    python3 tools/seeded.py check $id $p 2>&1 | tail -1
  done
done
