claim("C03", "differential testing against a reference lexer: bounded-exhaustive enumeration + rapid generators + native fuzzing (thorough)",
      "Every string up to length 5 (quick) / 6 (thorough) over a 20-symbol alphabet, every block-string body up to length 7/9 and every quoted-string body up to length 6 over small alphabets are lexed by the library and by an independent transcription of the October 2021 lexical grammar and compared token by token (kind, extent, decoded value, point of failure); random long inputs and a metamorphic ignored-text relation cover what enumeration cannot. Exhaustive within the stated bounds, search beyond.",
      "Trusted: harness/ref/lexer.go (self-tested against lexer/lexer_test.yml), rapid, the Go toolchain. Three recorded deviations are modelled as switchable relaxations of the reference (known-findings.txt).",
      "6/C03")
claim("C05", "differential testing against a reference recogniser/tree builder: bounded-exhaustive token sequences + generated trees + token mutants",
      "Every lexeme sequence up to length 5 (quick) / 6 (thorough) over an 18-lexeme alphabet, extended by one lexeme where the prefix is viable, is parsed by the library and by an independent recursive-descent transcription of the executable grammar; verdicts must agree and accepted trees must be equal. Generated trees are rendered with three ignored-token policies and must be read back identically; single-lexeme mutants and a near-miss catalogue probe the boundary of the language.",
      "Trusted: harness/ref lexer+parser (self-tested against the repository's parser examples). Six recorded deviations are modelled as grammar deltas (known-findings.txt).",
      "6/C05")
claim("C06", "differential testing against a reference recogniser/tree builder: bounded-exhaustive token sequences (full alphabet and per-definition sub-alphabets) + generated trees + token mutants",
      "As C05 for the type-system grammar: a 31-lexeme alphabet to length 4/5 plus ten head+sub-alphabet families to length 5/6 (+1 on viable prefixes), generated type-system trees rendered three ways, mutants, near misses, and the built-in flag for both source kinds.",
      "Trusted: harness/ref lexer+parser. Recorded deviations are modelled as grammar deltas (known-findings.txt).",
      "6/C06")
