claim("C03", "differential testing against a reference lexer: bounded-exhaustive enumeration + rapid generators + native fuzzing (thorough)",
      "Every string up to length 5 (quick) / 6 (thorough) over a 20-symbol alphabet, every block-string body up to length 7/9 and every quoted-string body up to length 6 over small alphabets are lexed by the library and by an independent transcription of the October 2021 lexical grammar and compared token by token (kind, extent, decoded value, point of failure); random long inputs and a metamorphic ignored-text relation cover what enumeration cannot. Exhaustive within the stated bounds, search beyond.",
      "Trusted: harness/ref/lexer.go (self-tested against lexer/lexer_test.yml), rapid, the Go toolchain. Three recorded deviations are modelled as switchable relaxations of the reference (known-findings.txt).",
      "6/C03")
claim("C05", "differential testing against a reference recogniser/tree builder: bounded-exhaustive token sequences + generated trees + token mutants",
      "Every lexeme sequence up to length 5 (quick) / 6 (thorough) over an 18-lexeme alphabet, extended by one lexeme where the prefix is viable, is parsed by the library and by an independent recursive-descent transcription of the executable grammar; verdicts must agree and accepted trees must be equal. Generated trees are rendered with three ignored-token policies and must be read back identically; single-lexeme mutants and a near-miss catalogue probe the boundary of the language.",
      "Trusted: harness/ref lexer+parser (self-tested against the repository's parser examples). Six recorded deviations are modelled as grammar deltas (known-findings.txt).",
      "6/C05")
claim("C06", "differential testing against a reference recogniser/tree builder: bounded-exhaustive token sequences (full alphabet and per-definition sub-alphabets) + generated trees + token mutants",
      "As C05 for the type-system grammar: a 31-lexeme alphabet to length 4/5 plus ten head+sub-alphabet families to length 5/6 (+1 on viable prefixes), generated type-system trees rendered three ways, mutants, near misses, and the built-in flag for both source kinds.",
      "Trusted: harness/ref lexer+parser. Recorded deviations are modelled as grammar deltas (known-findings.txt).",
      "6/C06")
claim("C01", "generated-input search with a validity oracle: lexical soups (rapid), bounded-exhaustive hostile strings, exhaustive prefixes/deletions of example documents, size-parametrised adversarial families with timing, native fuzzing (thorough)",
      "Every input goes through the lexer to the end and through all six parser entry points at eight token limits; the oracle demands normal return, document-xor-error, and error locations inside the input. 25 families of pathological shape are run up to 64 KiB without limit (growth ratio and absolute bound on wall time) and up to 8 MiB under finite limits; a process death is attributed to the in-flight family member.",
      "Absence of crashes is only established on the inputs explored; time bounds are wall-clock minima with wide margins, not proofs of a polynomial.",
      "6/C01")
claim("C04", "generated documents with adversarial ignored text, oracle = independent offset-to-line/column table and reference token starts; reflection walk over all positions",
      "Token positions, every *ast.Position reachable from parsed documents (1-4 sources) and every syntax-error location are recomputed from the source text by a ten-line scan (LF, CR, CRLF; code-point columns) and must agree; name-bearing nodes must point at the token spelling their name and definitions at the file they were written in.",
      "Trusted: harness/ref LineCol and lexer. One recorded deviation (quoted-string column, pinned by the repository's own tests) is modelled as a relaxation.",
      "6/C04")
claim("C16", "exhaustive sweep of all limits 0..N+2 per generated document, metamorphic tail-replacement, multi-megabyte families with time and allocation bounds",
      "For each generated, mutated or broken document of either grammar every limit from 0 to token-count+2 is tried: exactness against the reference token count, identity of tree and positions with the unlimited parse, monotonicity, and independence from everything after token L+2 (replaced by invalid bytes, an unterminated string, 64 KiB of brackets). 25 families of 1-8 MiB must fail fast with bounded allocation under limits 1..100000.",
      "Token counts come from the reference lexer; work bounds are observed through tail independence, wall time and allocation deltas, not through instrumentation.",
      "6/C16")
claim("C12", "round-trip property over generated trees crossed with the complete formatter configuration space",
      "Generated executable documents (hostile string contents, directives everywhere, fragment variables, comments) are parsed, formatted under all 112 configurations (16 option subsets x 7 indents), re-parsed and compared by projection; the formatter must be a fixpoint on its own output.",
      "Equality is on the harness projection (block string == quoted string of equal value; alias equal to name == no alias). Search, not proof, over documents; exhaustive over configurations.",
      "6/C12")
claim("C19", "round-trip property over generated trees (incl. names spelt like the encoding's own member names, wide and deep documents)",
      "Parsed generated documents and the repository's example queries are encoded with encoding/json and decoded back; projections (positions and comments excluded) must be equal and a second trip stable.",
      "Search over the tree generator's distribution; equality on the harness projection.",
      "6/C19")
claim("C07", "model-based testing: valid-by-construction typed schema generator, one-fault-per-rule catalogue (32 operators), random SDL; oracle = independent reference validator + graph post-conditions",
      "Generated valid schemas must load and generated single-fault schemas must be rejected; on random SDL the verdict must equal the reference validator's. Every loaded schema is compared with the merged definitions (types, fields, directives, roots by pointer identity, built-ins, introspection fields) and its PossibleTypes/Implements relations with the relations the definitions imply.",
      "Trusted: harness/ref/schema.go (rule list of the property statement; self-checked: every generated valid schema is valid for it, every fault operator's rule is reported by it). Regions where the statement does not determine the verdict are excluded (DESIGN.md 7).",
      "6/C07")
claim("C13", "round-trip property over generated trees / typed schemas crossed with the complete formatter configuration space",
      "Document level: generated type-system trees formatted under all 112 configurations, re-parsed, compared by projection, fixpoint. Schema level: generated valid schemas loaded, formatted under all configurations without WithBuiltin, reloaded, canonical schemas compared, fixpoint.",
      "Two deviations pinned by the repository's golden files are recorded as known findings with narrow relaxations (schema description; comma after hidden descriptions).",
      "6/C13")
claim("C17", "metamorphic testing: permutations and partitions of top-level pieces of generated schemas (valid and single-fault)",
      "Each generated schema is loaded in a single-source baseline order, with extensions first (one and two sources), reversed, and under 4 (quick) / 20 (thorough) random permutations partitioned into 1-5 named sources; verdict and canonical schema must be identical, and a load error must name a file containing a piece of a definition the reference validator reports as involved.",
      "Fields are compared as sets per type as the property states; 'involved' is the union over all violations the reference reports, so the file check is sound but coarse.",
      "6/C17")
claim("C08", "differential testing against a reference validator over typed generators: valid-by-construction documents, 1-3 injected faults from a 49-operator catalogue (rarely applicable ones tried first and alone in a third of the cases), type-blind, dense-overlap and introspection documents",
      "For generated (schema, document) pairs the emptiness of validator.Validate's error list must equal the verdict of an independent implementation of the validation section of the specification (plus the introspection depth rule). Documents valid by construction must be accepted, documents with an injected fault rejected; the generator and every fault operator are cross-checked against the reference on every case.",
      "Trusted: harness/ref/validate.go, calibrated against the 398 applicable graphql-js cases imported by the repository (TestSelfValidator). Two deviations that cannot be repaired without API changes are recorded as known findings with exact relaxations.",
      "6/C08")
claim("C02", "generated-input search with a crash/termination oracle over typed and type-blind generators, plus size-parametrised adversarial families with wall-time bounds",
      "Valid, faulty and random schemas crossed with valid, faulty, misspelt and type-blind documents go through LoadSchema, ParseSchemas+ValidateSchemaDocument, Validate and LoadQuery; every call must return normally with a well-formed result and the two load paths must agree. Twenty-eight families of pathological shape (every fan-out also with a back edge), random fragment-graph documents (fragment fan-out in four positions, cycles through fields, wide/deep same-name selections, wide unions, large literals) are validated at 256 B to 4 KB under absolute and growth bounds.",
      "Absence of crashes is established only on what was explored; time bounds are wall-clock (1 KB < 2 s, 4 KB < 30 s, ratio per doubling <= 20) against a slowest legitimate family member that is cubic and needs 65 ms at 1 KB and 3.6 s at 4 KB on the unchanged tree.",
      "6/C02")
claim("C09", "model-based check of annotations: independent traversal that resolves every node by name through the loaded schema, under the default rules, random rule subsets and a bare walk",
      "For generated valid pairs every link the walker leaves on the document is recomputed independently and compared by pointer identity with the schema's definitions: fields, parents, spreads, inline fragments, fragment definitions, directives and locations, variable definitions, expected type and definition of every typed value (lists, input objects, list-coerced singles), and the definition of every variable use.",
      "Only documents that pass validation are in scope (as the property states); resolution uses the loaded schema's own maps, whose closure is C07's subject.",
      "6/C09")
claim("C10", "metamorphic repetition: fresh loads and runs in-process, re-validation of the same tree, and freshly started child processes over error-biased and tie-biased generated pairs (incl. schemas extending built-in types)",
      "For generated invalid, misspelt (equal-distance candidates) and type-blind pairs and for schemas with two independent faults the complete error list must be identical over 8/16 fresh runs, on re-validating the same parsed document, and in 3 child processes.",
      "Go randomises map iteration per range statement, so in-process repetition samples iteration orders; three child processes sample hash seeds. One recorded deviation (re-validation with fragment cycles) is modelled narrowly.",
      "6/C10")
claim("C18", "algebraic law over configurations: exhaustive singletons + random subsets/orders of the exported rules on generated pairs",
      "For each generated pair all 27 singleton rule sets are evaluated and every other configuration (default, explicit full list, a random subset in random order, the four suggestion-free variants) must equal the multiset union of the singleton results with correct tags.",
      "Every Validate call receives a freshly parsed document, so the law is about rules, not about leftover annotations (that is C10's re-validation clause).",
      "6/C18")
claim("C11", "stateful property-based testing (rapid state machine with a deep snapshot invariant) plus generated concurrent workloads under the Go race detector",
      "A rapid state machine issues validate / coerce / resolve-arguments / format actions against one loaded schema and compares a deep snapshot (every field, pointer identity, slice capacities) after each step. Generated job mixes are then precomputed sequentially and issued by 2-32 goroutines started together on the shared schema; each result must equal the sequential one, the snapshot must be unchanged, and the binary (built with -race, halt_on_error) must report no race. Every call is also repeated later in its history, and a sample of calls once more after all histories and as the only call of a freshly started process: same result required.",
      "Schedules are whatever the runtime produced in the run; the race detector's happens-before analysis extends this to unsynchronised accesses that did not overlap in time. A race cannot be shrunk: the in-flight history is reported as the replay.",
      "6/C11")
claim("C14", "model-based testing of the coercer: type-directed generation of JSON-like Go values in many representations, nine defect operators, conformance predicate as oracle",
      "For generated variable types (list depth <= 3, all non-null patterns, scalars, enum, recursive and oneOf input objects, custom scalar) conforming values in 14 Go representations are generated, optionally damaged at a random depth or omitted; VariableValues must return normally, return values xor an error, and every returned value must satisfy an independent conformance predicate; a supplied value that cannot conform must be rejected, an explicit null stays null, an absent variable holds its declared default.",
      "Acceptance of conforming input is not claimed by the property and only recorded as a statistic. One deviation (inner list coercion discarded) is recorded with a relaxation restricted to nested positions.",
      "6/C14")
claim("C15", "differential testing of argument resolution against a reference resolver on generated valid triples",
      "For generated valid (schema, document, variables) triples, with variables first coerced as gqlgen does, ArgumentMap is called on every field and directive reachable from every operation and compared with an independent implementation of literal > supplied variable > argument default > absent.",
      "Unsupplied variables nested inside literals are outside the domain (the statement does not determine their value). One recorded panic (numbers beyond int64/float64 in custom-scalar positions) is matched by its exact signature.",
      "6/C15")
claim("C20", "generated-input search with a well-formedness oracle over every error-producing entry point, coverage measured in distinct message templates",
      "Error-biased generators drive the lexer, all parser entry points, LoadSchema, Validate/LoadQuery (default rules, explicit rule lists, and the default rules after ReplaceRule/RemoveRule edits of the global rule set that amount to the identity) and VariableValues with named and unnamed sources; every error value is checked for message, rule, location, file, JSON shape and path round trip. Paths are enumerated exhaustively to length 3 and sampled to length 6.",
      "Coverage is reported as distinct message templates reached per entry point; a template list that shrinks between runs indicates a generator regression, not a violation.",
      "6/C20")
