#!/bin/bash
# usage: [VERIF_PROPS="C01 C02"] tools/runall.sh [tier] [seed]   - run every (or the listed) check, print exit code and wall time
tier=${1:-quick}; seed=${2:-1}
for p in ${VERIF_PROPS:-C01 C02 C03 C04 C05 C06 C07 C08 C09 C10 C11 C12 C13 C14 C15 C16 C17 C18 C19 C20}; do
  t0=$(date +%s)
  out=$(VERIF_SEED=$seed ./verif check $p --tier $tier 2>&1); rc=$?
  t1=$(date +%s)
  echo "$p rc=$rc wall=$((t1-t0))s $(echo "$out" | grep -c '^VIOLATION') viol $(echo "$out" | grep -c '^KNOWN-FINDING') kf $(echo "$out" | grep 'seed=' | sed 's/.*evaluations=/ev=/' | cut -c1-60)"
  [ $rc -ne 0 ] && echo "$out" | grep "VIOLATION\|HARNESS" | head -3 | cut -c1-300
done
