#!/bin/bash
# tools/import_round8.sh CNN   import /tmp/mut8_out_CNN/m1,m2 as CNN-m15,m16; verify; run own quick check at seeds 1 and 7
cd "$(dirname "$0")/.."
p=$1; i=15
for m in m1 m2; do
  id=$p-m$i; i=$((i+1))
  [ -f /tmp/mut8_out_$p/$m/patch.diff ] || { echo "$id: no deliverable"; continue; }
  python3 tools/seeded.py import /tmp/mut8_out_$p/$m $id >/dev/null
  echo "$id verify: $(python3 tools/seeded.py verify $id 2>&1 | tail -1)"
  echo "$id seed1: $(python3 tools/seeded.py check $id $p 2>&1 | head -2 | cut -c1-400 | tr '\n' ' ')"
  echo "$id seed7: $(VERIF_SEED=7 python3 tools/seeded.py check $id $p 2>&1 | head -1 | cut -c1-200)"
done
