#!/usr/bin/env python3
"""Regenerates /verif/MANIFEST.json from the table below (kept in one place so the file stays valid)."""
import json, os

VERIF = os.path.dirname(os.path.dirname(os.path.abspath(__file__)))

BASELINE_OFF = "cd /repo && go build ./... && go test -vet=off -count=1 -timeout 25m ./..."

# id -> (technique, level text, level note, design ref)
CLAIMED = {}
NOT_YET = {}

def claim(pid, technique, text, note, ref):
    CLAIMED[pid] = (technique, text, note, ref)

exec(open(os.path.join(VERIF, "tools", "claims.py")).read())

props = [json.loads(l)["id"] for l in open(os.path.join(VERIF, "properties.jsonl"))]
checks = []
na = []
for pid in props:
    if pid in CLAIMED:
        tech, text, note, ref = CLAIMED[pid]
        checks.append({
            "property_id": pid,
            "quick_cmd": "./verif check %s --tier quick" % pid,
            "thorough_cmd": "./verif check %s --tier thorough" % pid,
            "evidence_file": "/verif/evidence/%s.json" % pid,
            "replay_cmd_template": "./verif replay {path}",
            "engine": "harness",
            "level_claimed": {"category": "exploration", "text": text, "design_ref": ref},
            "level_note": note,
            "technique": tech,
        })
    else:
        na.append({"property_id": pid, "reason": NOT_YET.get(pid, "check not built yet at this revision of /verif (property-based testing applies; see DESIGN.md section 6)")})

m = {
    "version": 1,
    "setup_cmd": "./verif setup",
    "hooks": {
        "guard": "verif",
        "enable": "go test -tags verif (the harness is built with the tag; no hook commits exist, DESIGN.md 3.7)",
        "baseline_off_cmd": BASELINE_OFF,
        "source_commits": [],
        "add_only": True,
    },
    "engines": [{
        "name": "harness",
        "path": "/verif/harness",
        "serves_properties": sorted(CLAIMED),
        "kind_free_text": "Go test binary (pgregory.net/rapid v1.3.0 generators, bounded-exhaustive enumerators, native go fuzz targets in the thorough tier) with reference models in harness/ref; driven by ./verif (python3)",
    }],
    "checks": checks,
    "notes": "All checks rebuild the harness against /repo's working tree through a go.mod replace directive. Known findings: /verif/known-findings.txt.",
    "not_applicable": na,
}
with open(os.path.join(VERIF, "MANIFEST.json"), "w") as f:
    json.dump(m, f, indent=1)
    f.write("\n")
print("claimed:", sorted(CLAIMED), "not claimed:", [x["property_id"] for x in na])
